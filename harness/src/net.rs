//! Helpers around the crate's public network API: parsing through the list loader, per-rule
//! evaluation with one RegexManager per rule (the regex cache is keyed by the rule's address).
use adblock::filters::network::{NetworkFilter, NetworkFilterMask, NetworkMatchable};
use adblock::lists::{parse_filter, FilterFormat, ParseOptions, ParsedFilter};
use adblock::regex_manager::RegexManager;
use adblock::request::Request;

pub struct PRule {
    pub line: String,
    pub f: Box<NetworkFilter>,
    pub rm: RegexManager,
}

pub fn parse_net(line: &str, debug: bool) -> Option<NetworkFilter> {
    match parse_filter(line, debug, ParseOptions::default()) {
        Ok(ParsedFilter::Network(f)) => Some(f),
        _ => None,
    }
}
pub fn parse_net_fmt(line: &str, debug: bool, format: FilterFormat) -> Option<NetworkFilter> {
    let opts = ParseOptions { format, ..Default::default() };
    match parse_filter(line, debug, opts) {
        Ok(ParsedFilter::Network(f)) => Some(f),
        _ => None,
    }
}

pub fn parse_all(lines: &[String]) -> Vec<PRule> {
    lines
        .iter()
        .filter_map(|l| parse_net(l, true).map(|f| PRule { line: l.clone(), f: Box::new(f), rm: RegexManager::default() }))
        .collect()
}

impl PRule {
    pub fn matches(&mut self, r: &Request) -> bool {
        self.f.matches(r, &mut self.rm)
    }
    pub fn has(&self, m: NetworkFilterMask) -> bool {
        self.f.mask.contains(m)
    }
    pub fn tag(&self) -> Option<&str> {
        self.f.verif_tag()
    }
}

// ---------------------------------------------------------------------------------------------
// dumps for the line protocol (see lean/Driver/Parse.lean)

use crate::util::{hex, hex_list, opt_hex};
use adblock::filters::network::FilterPart;
use adblock::resources::{MimeType, Resource, ResourceType};

fn opt_hashes(o: &Option<Vec<u64>>) -> String {
    match o {
        None => "-".into(),
        Some(v) => format!("+{}", v.iter().map(|x| x.to_string()).collect::<Vec<_>>().join(",")),
    }
}
fn opt_hash(o: &Option<u64>) -> String {
    match o {
        None => "-".into(),
        Some(v) => format!("+{}", v),
    }
}

pub fn dump_rule(f: &NetworkFilter, rx: bool) -> String {
    let fp = match &f.filter {
        FilterPart::Empty => "E".to_string(),
        FilterPart::Simple(s) => format!("S{}", hex(s)),
        FilterPart::AnyOf(v) => format!("A{}", v.iter().map(|s| hex(s)).collect::<Vec<_>>().join(",")),
    };
    format!(
        "{};{};{};{};{};{};{};{};{};{};{}",
        f.mask.bits(),
        fp,
        opt_hex(f.hostname.as_deref()),
        opt_hashes(&f.opt_domains),
        opt_hashes(&f.opt_not_domains),
        opt_hash(&f.opt_domains_union),
        opt_hash(&f.opt_not_domains_union),
        opt_hex(f.modifier_option.as_deref()),
        opt_hex(f.verif_tag()),
        f.id,
        if rx { 1 } else { 0 }
    )
}

/// For a complete-regex rule: what the `regex` crate answers on the request (external parameter of the
/// model), computed here WITHOUT going through the crate's `compile_regex` / `RegexManager`: the text
/// between the slashes (with the two escapes `\/` and `\:` the crate undoes), compiled as a byte regex
/// without Unicode classes, searched in the request URL (lower-cased unless the rule is match-case).
pub fn rx_hint(f: &NetworkFilter, req: &Request) -> bool {
    if !f.mask.contains(NetworkFilterMask::IS_COMPLETE_REGEX) {
        return false;
    }
    let url = if f.mask.contains(NetworkFilterMask::MATCH_CASE) { req.url.clone() } else { req.url.to_ascii_lowercase() };
    f.filter.iter().any(|p| {
        if p.len() < 2 || !p.is_char_boundary(1) || !p.is_char_boundary(p.len() - 1) {
            return false;
        }
        let inner = p[1..p.len() - 1].replace("\\/", "/").replace("\\:", ":");
        match regex::bytes::RegexBuilder::new(&inner).unicode(false).build() {
            Ok(re) => re.is_match(url.as_bytes()),
            Err(_) => false,
        }
    })
}

pub struct Req {
    pub req: Request,
    pub dump: String,
    pub url: String,
    pub src: String,
    pub ty: String,
}

/// Builds the request through the public constructor and dumps the parts the model's
/// `mkRequest` (= `from_detailed_parameters`) takes as input.
pub fn make_req(url: &str, src: &str, ty: &str) -> Option<Req> {
    let req = Request::new(url, src, ty).ok()?;
    let pu = adblock::url_parser::parse_url(url)?;
    let ps = adblock::url_parser::parse_url(src);
    let (src_host, third) = match &ps {
        Some(s) => (s.hostname().to_string(), s.domain() != pu.domain()),
        None => (String::new(), true),
    };
    let dump = format!(
        "{};{};{};{};{};{};{}",
        hex(ty),
        hex(&pu.url),
        hex(pu.schema()),
        hex(pu.hostname()),
        hex(&src_host),
        if third { 1 } else { 0 },
        hex(url)
    );
    Some(Req { req, dump, url: url.to_string(), src: src.to_string(), ty: ty.to_string() })
}

pub fn kind_name(k: &ResourceType) -> String {
    match k {
        ResourceType::Template => "Template".to_string(),
        ResourceType::Mime(m) => format!("Mime(MimeType::{:?})", m),
    }
}
pub fn mime_str(k: &ResourceType) -> String {
    match k {
        ResourceType::Template => String::new(),
        ResourceType::Mime(m) => {
            let s: &str = m.into();
            s.to_string()
        }
    }
}

/// The attempted `add_resource` calls in order (the model decides which are accepted).
pub fn dump_store(rs: &[Resource]) -> String {
    if rs.is_empty() {
        return ".".into();
    }
    rs.iter()
        .map(|r| {
            format!(
                "{};{};{};{};{};{};{}",
                hex(&r.name),
                hex_list(&r.aliases),
                hex(&kind_name(&r.kind)),
                hex(&mime_str(&r.kind)),
                hex(&r.content),
                perm_bits(r),
                hex_list(&r.dependencies)
            )
        })
        .collect::<Vec<_>>()
        .join("|")
}

pub fn perm_bits(r: &Resource) -> u8 {
    // PermissionMask is #[serde(transparent)] over u8
    serde_json::to_value(&r.permission).ok().and_then(|v| v.as_u64()).unwrap_or(0) as u8
}

pub fn mk_resource(name: &str, aliases: &[&str], kind: ResourceType, content: &str, perm: u8) -> Resource {
    use base64::{engine::Engine as _, prelude::BASE64_STANDARD};
    Resource {
        name: name.to_string(),
        aliases: aliases.iter().map(|s| s.to_string()).collect(),
        kind,
        content: BASE64_STANDARD.encode(content),
        dependencies: vec![],
        permission: adblock::resources::PermissionMask::from_bits(perm),
    }
}

pub fn show_verdict(r: &adblock::blocker::BlockerResult) -> String {
    format!(
        "{},{},{},{},{}",
        r.matched as u8,
        r.important as u8,
        r.exception.is_some() as u8,
        opt_hex(r.redirect.as_deref()),
        opt_hex(r.rewritten_url.as_deref())
    )
}

pub fn show_csp(c: &Option<String>) -> String {
    match c {
        None => "-".into(),
        Some(s) => {
            let mut v: Vec<String> = s.split(',').map(|d| hex(d)).collect();
            v.sort();
            v.dedup();
            format!("+{}", v.join(","))
        }
    }
}

#[allow(dead_code)]
pub fn _unused(_: MimeType) {}
