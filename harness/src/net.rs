//! Helpers around the crate's public network API: parsing through the list loader, per-rule
//! evaluation with one RegexManager per rule (the regex cache is keyed by the rule's address).
use adblock::filters::network::{NetworkFilter, NetworkFilterMask, NetworkMatchable};
use adblock::lists::{parse_filter, FilterFormat, ParseOptions, ParsedFilter};
use adblock::regex_manager::RegexManager;
use adblock::request::Request;

pub struct PRule {
    pub line: String,
    pub f: Box<NetworkFilter>,
    pub rm: RegexManager,
}

pub fn parse_net(line: &str, debug: bool) -> Option<NetworkFilter> {
    match parse_filter(line, debug, ParseOptions::default()) {
        Ok(ParsedFilter::Network(f)) => Some(f),
        _ => None,
    }
}
pub fn parse_net_fmt(line: &str, debug: bool, format: FilterFormat) -> Option<NetworkFilter> {
    let opts = ParseOptions { format, ..Default::default() };
    match parse_filter(line, debug, opts) {
        Ok(ParsedFilter::Network(f)) => Some(f),
        _ => None,
    }
}

pub fn parse_all(lines: &[String]) -> Vec<PRule> {
    lines
        .iter()
        .filter_map(|l| parse_net(l, true).map(|f| PRule { line: l.clone(), f: Box::new(f), rm: RegexManager::default() }))
        .collect()
}

impl PRule {
    pub fn matches(&mut self, r: &Request) -> bool {
        self.f.matches(r, &mut self.rm)
    }
    pub fn has(&self, m: NetworkFilterMask) -> bool {
        self.f.mask.contains(m)
    }
    pub fn tag(&self) -> Option<&str> {
        self.f.verif_tag()
    }
}
