//! C02: pattern matching vs ABP pattern semantics — exhaustive small universe + random beyond.
use crate::net::*;
use crate::util::*;
use serde_json::json;

fn urls() -> Vec<(String, String, String)> {
    let hosts = ["a.b", "b.a", "a.a.b", "ab.b", "a", "b.a.b", "aa.b", "a.ba", "ba.a.b", "a-b.b", "x.a.b", "a.b.x", "abb.b"];
    let paths = ["/", "/a", "/ab", "/a/b", "/b.a", "/a.b/", "/aa", "/a?b", "/a/b/a", "/.a", "/a*b", "/ba/", "/a/", "/b", "//a", "/a.b", "/a^b", "/a?a=b&b", "/ab/ba", "/abb", "/a/bab", "/b/aab"];
    let mut v = vec![];
    for (i, h) in hosts.iter().enumerate() {
        for (j, p) in paths.iter().enumerate() {
            let scheme = match (i + j) % 5 { 0 => "http", 1 => "wss", _ => "https" };
            let port = if (i * 7 + j) % 11 == 0 { ":8" } else { "" };
            v.push((format!("{}://{}{}{}", scheme, h, port, p), format!("https://{}/", h), "script".to_string()));
        }
    }
    for u in ["https://a.b/?u=https://a.b/", "https://a.b/a#https://a.b/a", "https://a.b/a?x=https://a.b/a", "http://a.b:8/?http://a.b:8/", "https://b.a/ab/https://b.a/ab"] {
        v.push((u.to_string(), "https://a.b/".to_string(), "script".to_string()));
    }
    v
}

fn patterns(maxlen: usize) -> Vec<String> {
    let alpha = ['a', 'b', '.', '/', '*', '^'];
    let mut out = vec![String::new()];
    let mut cur = vec![String::new()];
    for _ in 0..maxlen {
        let mut next = vec![];
        for p in &cur {
            for c in alpha {
                let mut q = p.clone();
                q.push(c);
                next.push(q);
            }
        }
        out.extend(next.iter().cloned());
        cur = next;
    }
    out
}

pub fn run(seed: u64, n: usize, out: &mut Out, tier: &str) {
    let us = urls();
    let reqs: Vec<Req> = us.iter().filter_map(|(u, s, t)| make_req(u, s, t)).collect();
    let dumps: Vec<String> = reqs.iter().map(|q| q.dump.clone()).collect();
    // user information in front of the host is outside the reference's URL universe; what is checked on such
    // URLs is that the host the patterns are anchored to is the host of the URL as written (it starts after the
    // LAST `@` of the authority) and that `||host^` finds it
    let mut with_userinfo: Vec<Req> = vec![];
    for (ui, h, p) in [("u@", "a.b", "/a"), ("u:p@", "a.b", "/ab"), ("u:p@ss@", "a.b", "/a"), ("x.y@", "b.a", "/a.b"), ("u@x@y@", "a.a.b", "/b.a"), ("@", "a.b", "/a"),
                       // a fully qualified host (trailing root dot) is the host as written, dot included
                       ("", "a.b.", "/a"), ("u@", "b.a.", "/ab")] {
        if let Some(q) = make_req(&format!("https://{}{}{}", ui, h, p), &format!("https://{}/", h), "script") {
            let line = format!("||{}^", h);
            if let Some(mut pr) = parse_all(&[line.clone()]).into_iter().next() {
                if !pr.matches(&q.req) {
                    out.fail("host-rule-misses-a-url-with-user-information", None, json!({"rule": line, "url": q.url, "hostname": q.req.hostname}));
                }
            }
            with_userinfo.push(q);
        }
    }
    for q in reqs.iter().chain(with_userinfo.iter()) {
        let auth = q.url.split("://").nth(1).unwrap_or("").split('/').next().unwrap_or("");
        let hostport = auth.rsplit('@').next().unwrap_or("");
        let host = hostport.split(':').next().unwrap_or("");
        if q.req.hostname != host {
            out.fail("request-host-differs-from-the-url's-host", None, json!({"url": q.url, "hostname": q.req.hostname, "expected": host}));
        }
    }
    let maxlen = if tier == "quick" { 3 } else { 5 };
    let pats = patterns(maxlen);
    let mut r = Rng::new(seed);
    let mut lines: Vec<String> = vec![];
    for p in &pats {
        for (pre, post) in [("", ""), ("|", ""), ("||", ""), ("", "|"), ("|", "|"), ("||", "|")] {
            lines.push(format!("{}{}{}", pre, p, post));
        }
    }
    if tier == "quick" {
        // quick: all patterns up to 3 elements, plus a seeded sample of the 4-element ones
        let p4 = patterns(4);
        for _ in 0..n {
            let p = &p4[r.below(p4.len())];
            let (pre, post) = *r.pick(&[&("", ""), &("|", ""), &("||", ""), &("", "|"), &("|", "|"), &("||", "|")]);
            lines.push(format!("{}{}{}", pre, p, post));
        }
    } else {
        out.add("exhaustive", 1);
    }
    // whole-URL patterns (both anchors), against URLs that start and end with the pattern text without being it
    for u in ["https://a.b/", "https://a.b/a", "http://a.b:8/", "wss://a.b/a", "https://b.a/ab"] {
        for (pre, post) in [("|", "|"), ("|", ""), ("", "|"), ("", "")] {
            lines.push(format!("{}{}{}", pre, u, post));
        }
    }
    // random beyond: richer alphabet
    let rich = ["a", "b", "ab", ".", "/", "*", "^", "-", "_", "?", "=", "&", ":", "%", "a.b", "b.a", "www.", "x", "8"];
    for _ in 0..n {
        let k = 1 + r.below(6);
        let body: String = (0..k).map(|_| r.pick(&rich).to_string()).collect();
        let (pre, post) = *r.pick(&[&("", ""), &("|", ""), &("||", ""), &("", "|"), &("|", "|"), &("||", "|"), &("@@", ""), &("@@||", "")]);
        lines.push(format!("{}{}{}", pre, body, post));
    }
    for line in lines {
        // `/re/` bodies are full regular expressions: "matches iff the regex finds a match" is the
        // `regex` crate's answer by definition (external), not part of the pattern universe
        let body = line.trim_start_matches("@@").trim_start_matches('|').trim_end_matches('|');
        if body.len() > 1 && body.starts_with('/') && body.ends_with('/') {
            out.bump("full_regex_spellings_skipped");
            continue;
        }
        let parsed = parse_all(&[line.clone()]);
        let imp: String = if let Some(mut pr) = parsed.into_iter().next() {
            reqs.iter().map(|q| if pr.matches(&q.req) { '1' } else { '0' }).collect()
        } else {
            // the list loader rejects the line (too short, comment-like, ...); the rule parser may still accept it
            match adblock::filters::network::NetworkFilter::parse(&line, true, Default::default()) {
                Ok(f) => {
                    let mut pr = PRule { line: line.clone(), f: Box::new(f), rm: Default::default() };
                    reqs.iter().map(|q| if pr.matches(&q.req) { '1' } else { '0' }).collect()
                }
                Err(_) => "R".to_string(),
            }
        };
        // the same answers through a one-rule engine (where the rule has to be found by its tokens first):
        // a pattern that matches per rule but is filed under a token the URL does not produce is lost there
        if imp != "R" && !line.starts_with("@@") && parse_all(&[line.clone()]).len() == 1 {
            let mut e = adblock::Engine::from_rules_parametrised(&[line.clone()], Default::default(), true, false);
            // (compiled regexes are dropped at every query: every answer but the first comes from a rebuilt one)
            e.set_regex_discard_policy(adblock::regex_manager::RegexManagerDiscardPolicy { cleanup_interval: std::time::Duration::from_nanos(1), discard_unused_time: std::time::Duration::from_nanos(0) });
            for (i, q) in reqs.iter().enumerate() {
                let v = e.check_network_request(&q.req);
                let hit = v.matched || v.exception.is_some();
                if hit != (imp.as_bytes()[i] == b'1') {
                    out.fail("one-rule-engine-differs-from-the-rule", None, json!({"rule": line, "url": q.url, "rule_matches": imp.as_bytes()[i] == b'1', "engine": hit}));
                }
            }
            out.add("engine_pairs", reqs.len() as u64);
        }
        let hits = imp.matches('1').count();
        out.add("pattern_url_pairs", reqs.len() as u64);
        out.add("pairs_matching", hits as u64);
        out.case(&format!("pmx\t{}\t{}", hex(&line), dumps.join("\t")), &imp, json!({"rule": line, "urls": us.len(), "matching_urls": hits, "first_urls": &us[..3]}), hits > 0 && hits < reqs.len());
    }
}
