//! Shared helpers: PRNG (one splitmix64 state per run), hex transport encoding, output files.
use serde_json::{json, Map, Value};
use std::collections::HashSet;
use std::fs::File;
use std::io::{BufWriter, Write};

pub struct Rng(pub u64);
impl Rng {
    pub fn new(seed: u64) -> Self {
        Rng(seed ^ 0x5DEECE66D)
    }
    pub fn next(&mut self) -> u64 {
        self.0 = self.0.wrapping_add(0x9E3779B97F4A7C15);
        let mut z = self.0;
        z = (z ^ (z >> 30)).wrapping_mul(0xBF58476D1CE4E5B9);
        z = (z ^ (z >> 27)).wrapping_mul(0x94D049BB133111EB);
        z ^ (z >> 31)
    }
    pub fn below(&mut self, m: usize) -> usize {
        (self.next() % (m.max(1) as u64)) as usize
    }
    pub fn pct(&mut self, p: usize) -> bool {
        self.below(100) < p
    }
    pub fn pick<'a, T: ?Sized>(&mut self, xs: &[&'a T]) -> &'a T {
        xs[self.below(xs.len())]
    }
    pub fn pick_s(&mut self, xs: &[String]) -> String {
        xs[self.below(xs.len())].clone()
    }
}

pub fn hex(s: &str) -> String {
    let mut o = String::with_capacity(s.len() * 2);
    for b in s.bytes() {
        o.push_str(&format!("{:02x}", b));
    }
    o
}
pub fn hex_bytes(s: &[u8]) -> String {
    let mut o = String::with_capacity(s.len() * 2);
    for b in s {
        o.push_str(&format!("{:02x}", b));
    }
    o
}
pub fn opt_hex(o: Option<&str>) -> String {
    match o {
        None => "-".to_string(),
        Some(s) => format!("+{}", hex(s)),
    }
}
pub fn hex_list(xs: &[String]) -> String {
    // comma separated hex fields; the empty list is "."
    if xs.is_empty() {
        ".".to_string()
    } else {
        xs.iter().map(|x| format!("x{}", hex(x))).collect::<Vec<_>>().join(",")
    }
}

/// Collects the cases of one run: the driver input, the implementation's canonical output, a
/// human-readable description of each case, the oracle failures and the achieved distribution.
pub struct Out {
    cases: BufWriter<File>,
    imp: BufWriter<File>,
    desc: BufWriter<File>,
    pub n: usize,
    pub failures: Vec<Value>,
    pub stats: Map<String, Value>,
    pub distinct: HashSet<u64>,
    pub nontrivial: HashSet<u64>,
    pub samples: Vec<Value>,
    pub dir: String,
    /// rule lines whose parse has already been compared with the model's (see `c11::emit_plines`)
    pub seen_lines: HashSet<String>,
}

impl Out {
    pub fn new(dir: &str) -> Self {
        std::fs::create_dir_all(dir).unwrap();
        let f = |n: &str| BufWriter::new(File::create(format!("{}/{}", dir, n)).unwrap());
        Out {
            cases: f("cases.txt"),
            imp: f("impl.txt"),
            desc: f("desc.jsonl"),
            n: 0,
            failures: vec![],
            stats: Map::new(),
            distinct: HashSet::new(),
            nontrivial: HashSet::new(),
            samples: vec![],
            dir: dir.to_string(),
            seen_lines: HashSet::new(),
        }
    }
    /// One model-compared case.
    pub fn case(&mut self, op_line: &str, impl_out: &str, desc: Value, nontrivial: bool) {
        debug_assert!(!op_line.contains('\n') && !impl_out.contains('\n'));
        writeln!(self.cases, "{}", op_line).unwrap();
        writeln!(self.imp, "{}", impl_out).unwrap();
        writeln!(self.desc, "{}", desc).unwrap();
        let h = adblock::utils::fast_hash(op_line);
        self.distinct.insert(h);
        if nontrivial {
            self.nontrivial.insert(h);
        }
        if self.samples.len() < 5 && (nontrivial || self.n < 2) {
            self.samples.push(desc);
        }
        self.n += 1;
    }
    /// A case evaluated only against the in-process oracle (no model line).
    pub fn oracle_case(&mut self, key: &str, desc: &Value, nontrivial: bool) {
        let h = adblock::utils::fast_hash(key);
        self.distinct.insert(h);
        if nontrivial {
            self.nontrivial.insert(h);
        }
        if self.samples.len() < 5 && nontrivial {
            self.samples.push(desc.clone());
        }
        self.bump("oracle_only_cases");
    }
    pub fn fail(&mut self, kind: &str, class: Option<&str>, desc: Value) {
        // failures of a known class (a recorded finding) never crowd out the others: they are kept up to 40 per class, and
        // failures without a class up to 200
        let key = class.unwrap_or("").to_string();
        let seen = self.failures.iter().filter(|f| f["class"].as_str().unwrap_or("") == key).count();
        if seen < if class.is_some() { 40 } else { 200 } {
            self.failures.push(json!({"kind": kind, "class": class, "case": desc}));
        }
        self.bump(&format!("fail:{}", kind));
    }
    pub fn bump(&mut self, k: &str) {
        self.add(k, 1);
    }
    pub fn add(&mut self, k: &str, d: u64) {
        let e = self.stats.entry(k.to_string()).or_insert(json!(0));
        *e = json!(e.as_u64().unwrap_or(0) + d);
    }
    pub fn finish(mut self) {
        self.cases.flush().unwrap();
        self.imp.flush().unwrap();
        self.desc.flush().unwrap();
        let rep = json!({
            "model_cases": self.n,
            "distinct": self.distinct.len(),
            "distinct_nontrivial": self.nontrivial.len(),
            "failures": self.failures,
            "stats": self.stats,
            "samples": self.samples,
        });
        std::fs::write(format!("{}/report.json", self.dir), serde_json::to_string_pretty(&rep).unwrap()).unwrap();
    }
}

/// Run a closure, turning a panic into an Err with the panic message.
pub fn guarded<T>(f: impl FnOnce() -> T + std::panic::UnwindSafe) -> Result<T, String> {
    std::panic::catch_unwind(f).map_err(|e| {
        if let Some(s) = e.downcast_ref::<&str>() {
            s.to_string()
        } else if let Some(s) = e.downcast_ref::<String>() {
            s.clone()
        } else {
            "panic".to_string()
        }
    })
}
