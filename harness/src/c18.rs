//! C18: permission subset test (exhaustive), argument encoding, and the same through the public API.
use crate::net::*;
use crate::util::*;
use adblock::lists::{FilterSet, ParseOptions};
use adblock::resources::{MimeType, PermissionMask, Resource, ResourceType};
use adblock::Engine;
use serde_json::json;

fn arg_pool(r: &mut Rng) -> String {
    let pieces = ["a", "\"", "\\", "'", "`", "\n", "\r", "\t", "\u{8}", "\u{c}", "\u{1}", "\u{1f}", "\u{7f}", "\u{2028}", "\u{2029}", "$", "$1", "$$", "${x}", "{{1}}", "</script>", "é", "😀", " ", ",", "\\,", "x.y", "0", "\u{0}"];
    let n = r.below(6);
    let mut s = String::new();
    for _ in 0..n {
        s.push_str(r.pick(&pieces));
    }
    s
}

pub fn run(seed: u64, n: usize, out: &mut Out, tier: &str) {
    run_assembly(seed, n / 2, out);
    let mut r = Rng::new(seed);
    // (1) all 256 x 256 (resource permission, list permission) pairs
    for req in 0u16..256 {
        for g in 0u16..256 {
            if tier == "quick" && (req * 256 + g) % 4 != (seed % 4) as u16 && !(req < 16 && g < 16) {
                // quick tier: a quarter of the square (chosen by the seed) plus the low 16x16 block; thorough: all
                continue;
            }
            let ans = PermissionMask::from_bits(req as u8).is_injectable_by(PermissionMask::from_bits(g as u8));
            out.case(&format!("inj\t{}\t{}", req, g), if ans { "1" } else { "0" }, json!({"required": req, "granted": g, "injectable": ans}), req != 0);
        }
    }
    if tier != "quick" {
        out.add("exhaustive", 1);
    }
    // (2) stringify_arg on generated arguments
    for _ in 0..n {
        let a = arg_pool(&mut r);
        for quoted in [true, false] {
            let o = adblock::resources::verif_stringify_arg(&a, quoted);
            out.case(&format!("strq\t{}\t{}", if quoted { 1 } else { 0 }, hex(&a)), &hex(&o), json!({"arg": a, "quoted": quoted, "emitted": o}), !a.is_empty());
        }
    }
    // (3) through the public API: +js rules with quoted arguments, function-style scriptlets,
    //     permissions on resources and lists, dependencies (cycles, missing)
    for _ in 0..n / 4 {
        let nargs = r.below(4);
        let args: Vec<String> = (0..nargs).map(|_| arg_pool(&mut r)).collect();
        // spell the rule with double-quoted arguments, escaping `"` and `\`
        let spelled: Vec<String> = args.iter().map(|a| format!("\"{}\"", a.replace('\\', "\\\\").replace('"', "\\\""))).collect();
        let rule = format!("example.com##+js(fnlet{}{})", if spelled.is_empty() { "" } else { ", " }, spelled.join(", "));
        if rule.contains('\n') || rule.contains('\r') {
            continue; // a rule is one line
        }
        let rperm = r.pick(&[&0u8, &0, &1, &2, &3]);
        let lperm = r.pick(&[&0u8, &1, &2, &3]);
        let dperm = r.pick(&[&0u8, &0, &1, &2]);
        let mut res = mk_resource("fnlet.js", &[], ResourceType::Mime(MimeType::ApplicationJavascript), "function fnlet(a, b, c) { BODY_FNLET }", *rperm);
        res.dependencies = vec!["dep.fn".to_string()];
        let mut dep = mk_resource("dep.fn", &[], ResourceType::Mime(MimeType::FnJavascript), "function dep() { BODY_DEP }", *dperm);
        dep.dependencies = if r.pct(50) { vec!["fnlet.js".to_string()] } else { vec!["missing.fn".to_string()] };
        let mut fs = FilterSet::new(true);
        let _ = fs.add_filter(&rule, ParseOptions { permissions: PermissionMask::from_bits(*lperm), ..Default::default() });
        let mut e = Engine::from_filter_set(fs, true);
        e.use_resources(vec![res, dep]);
        let got = guarded(std::panic::AssertUnwindSafe(|| e.url_cosmetic_resources("https://example.com/")));
        let desc = json!({"rule": rule, "args": args, "resource_permission": rperm, "dependency_permission": dperm, "list_permission": lperm});
        match got {
            Err(p) => out.fail("panic-in-cosmetic-query", None, json!({"case": desc, "panic": p})),
            Ok(cr) => {
                let script = cr.injected_script;
                let dep_missing_cycle_ok = true;
                let _ = dep_missing_cycle_ok;
                let permitted_main = (!lperm & rperm) == 0;
                let permitted_dep = (!lperm & dperm) == 0;
                // the rule parses only if its argument list does; a missing dependency makes the injection fail
                let has_main = script.contains("BODY_FNLET");
                let has_dep = script.contains("BODY_DEP");
                if has_main && !permitted_main {
                    out.fail("scriptlet-injected-without-permission", None, desc.clone());
                }
                if has_dep && !permitted_dep {
                    out.fail("dependency-injected-without-permission", None, desc.clone());
                }
                if has_main {
                    // the emitted call must parse back to exactly the arguments
                    if let Some(i) = script.find("try {\nfnlet(") {
                        let tail = &script[i + "try {\nfnlet(".len()..];
                        if let Some(j) = tail.find(")\n} catch ( e ) { }") {
                            let lit = format!("[{}]", &tail[..j]);
                            match serde_json::from_str::<Vec<String>>(&lit) {
                                Ok(v) => {
                                    let expect = adblock::resources::verif_parse_scriptlet_args(&rule["example.com##+js(".len()..rule.len() - 1]).map(|mut a| {
                                        a.remove(0);
                                        a
                                    });
                                    if Some(v.clone()) != expect {
                                        out.fail("emitted-arguments-differ-from-rule-arguments", None, json!({"case": desc, "emitted": v, "expected": expect}));
                                    }
                                }
                                Err(_) => out.fail("emitted-argument-list-is-not-a-list-of-string-literals", None, json!({"case": desc, "emitted": lit})),
                            }
                        } else {
                            out.fail("emitted-call-not-terminated", None, desc.clone());
                        }
                    }
                }
                out.oracle_case(&format!("{}|{}|{}|{}", rule, rperm, dperm, lperm), &desc, has_main);
                out.bump(if has_main { "public_api_injected" } else { "public_api_not_injected" });
            }
        }
    }
    // (3a') the permission gate is checked against the resources in force: `use_resources` replaces the whole set, so a
    //       scriptlet given again with another permission mask (or not at all) is judged by the latest call only
    for _ in 0..(n / 40).max(6) {
        let list_perm: u8 = r.below(4) as u8;
        let (p1, p2): (u8, u8) = (r.below(4) as u8, r.below(4) as u8);
        let lines = vec!["example.com##+js(fnlet, a)".to_string(), "||ads.test/fnlet.js$script,redirect=fnlet.js".to_string()];
        let mk = |perm: u8| mk_resource("fnlet.js", &[], ResourceType::Mime(MimeType::ApplicationJavascript), "function fnlet(a, b, c) { BODY_FNLET }", perm);
        let other = mk_resource("other.js", &["fnlet-alias"], ResourceType::Mime(MimeType::ApplicationJavascript), "function other() { OTHER }", 0);
        let build = || {
            let mut fs = adblock::lists::FilterSet::new(true);
            fs.add_filters(&lines, adblock::lists::ParseOptions { permissions: adblock::resources::PermissionMask::from_bits(list_perm), ..Default::default() });
            Engine::from_filter_set(fs, true)
        };
        let second: Vec<adblock::resources::Resource> = match r.below(3) { 0 => vec![mk(p2)], 1 => vec![other.clone()], _ => vec![mk(p2), other.clone()] };
        let mut e = build();
        e.use_resources(vec![mk(p1), other.clone()]);
        e.use_resources(second.clone());
        let mut fresh = build();
        fresh.use_resources(second.clone());
        let (a, b) = (e.url_cosmetic_resources("https://example.com/").injected_script, fresh.url_cosmetic_resources("https://example.com/").injected_script);
        let q = adblock::request::Request::new("https://ads.test/fnlet.js", "https://example.com/", "script").unwrap();
        let (ra, rb) = (e.check_network_request(&q).redirect, fresh.check_network_request(&q).redirect);
        // independent expectation: injected iff the latest set has fnlet.js and the list's permissions cover its mask
        let has = second.iter().any(|x| x.name == "fnlet.js");
        let expect_injected = has && (p2 & !list_perm) == 0;
        if a != b || ra != rb || a.contains("BODY_FNLET") != expect_injected || ra.is_some() != (has && p2 == 0) {
            out.fail("resources-of-an-earlier-use_resources-call-still-in-force", None, json!({"rules": lines, "list_permission": list_perm, "first_call_fnlet_permission": p1,
                "second_call": second.iter().map(|x| x.name.clone()).collect::<Vec<_>>(), "second_call_fnlet_permission": p2,
                "injected_after_both_calls": a.contains("BODY_FNLET"), "injected_fresh": b.contains("BODY_FNLET"), "expected_injected": expect_injected, "redirect_after_both": ra, "redirect_fresh": rb}));
        }
        out.bump("use_resources_replacement_probes");
    }
    // (3b) exceptions across the label hierarchy: "a scriptlet exception removes exactly the identical injection
    //      and a blanket exception removes all" — wherever along host / parent domain / entity either rule sits
    for _ in 0..n / 4 {
        let hosts = ["example.com", "sub.example.com", "x.sub.example.com"];
        let locs = ["example.com", "sub.example.com", "x.sub.example.com", "example.*", "sub.example.*", "other.org", "com"];
        let bodies = ["fnlet, a", "fnlet, b", "fnlet"];
        let nr = 2 + r.below(4);
        let mut rules: Vec<(String, bool, String)> = vec![]; // (location, exception?, body; empty body = blanket)
        for _ in 0..nr {
            let exc = r.pct(40);
            let body = if exc && r.pct(25) { String::new() } else { r.pick(&bodies).to_string() };
            rules.push((r.pick(&locs).to_string(), exc, body));
        }
        // an exception with a negated location is an error (double negation): it neither removes nor adds anything
        let mut rejected: Vec<String> = vec![];
        if r.pct(30) {
            let l = r.pick(&["~example.com", "~sub.example.*", "other.org,~example.com", "~x.sub.example.com,~example.*"]);
            rejected.push(format!("{}#@#+js({})", l, r.pick(&bodies)));
        }
        let mut lines: Vec<String> = rules.iter().map(|(l, x, b)| format!("{}{}+js({})", l, if *x { "#@#" } else { "##" }, b)).collect();
        lines.extend(rejected.iter().cloned());
        let mut e = Engine::from_rules_parametrised(&lines, Default::default(), true, true);
        if r.pct(40) {
            // the same engine saved and loaded again (resources are given after the load, as an embedder does)
            if let Ok(bytes) = e.serialize_raw() {
                let mut e2 = Engine::new(true);
                if e2.deserialize(&bytes).is_ok() {
                    e = e2;
                    out.bump("exception_hierarchy_engines_reloaded");
                }
            }
        }
        e.use_resources(vec![mk_resource("fnlet.js", &[], ResourceType::Mime(MimeType::ApplicationJavascript), "function fnlet(a, b, c) { BODY_FNLET }", 0)]);
        for host in hosts {
            let covers = |loc: &str| -> bool {
                if let Some(ent) = loc.strip_suffix(".*") {
                    let hw = host.strip_suffix(".com").unwrap_or(host);
                    hw == ent || hw.ends_with(&format!(".{}", ent))
                } else {
                    host == loc || host.ends_with(&format!(".{}", loc))
                }
            };
            let blanket = rules.iter().any(|(l, x, b)| *x && b.is_empty() && covers(l));
            let mut expect: Vec<String> = vec![];
            for (l, x, b) in &rules {
                if !*x && covers(l) && !blanket && !rules.iter().any(|(l2, x2, b2)| *x2 && b2 == b && covers(l2)) {
                    let call = match b.as_str() { "fnlet, a" => "fnlet(\"a\")", "fnlet, b" => "fnlet(\"b\")", _ => "fnlet()" };
                    if !expect.contains(&call.to_string()) {
                        expect.push(call.to_string());
                    }
                }
            }
            expect.sort();
            let url = format!("https://{}/", host);
            match guarded(std::panic::AssertUnwindSafe(|| e.url_cosmetic_resources(&url))) {
                Err(p) => out.fail("panic-in-cosmetic-query", None, json!({"rules": lines, "url": url, "panic": p})),
                Ok(cr) => {
                    let mut got: Vec<String> = cr.injected_script.lines().filter(|l| l.starts_with("fnlet(")).map(|l| l.to_string()).collect();
                    got.sort();
                    got.dedup();
                    if got != expect {
                        out.fail("injections-differ-from-rules-minus-exceptions", None, json!({"rules": lines, "url": url, "injected_calls": got, "expected_calls": expect}));
                    }
                    out.bump(if expect.is_empty() { "hierarchy_pages_without_injection" } else { "hierarchy_pages_with_injection" });
                }
            }
        }
    }
    // (4) several lists with different permission masks on one page: the same and different
    //     scriptlets, shared dependencies
    for _ in 0..n / 4 {
        let nl = 2 + r.below(2);
        let scripts = ["s1", "s2"];
        let perms = [0u8, 1, 2, 3];
        let p_s1 = perms[r.below(4)];
        let p_s2 = perms[r.below(4)];
        let p_dep = perms[r.below(4)];
        let mut s1 = mk_resource("s1.js", &[], ResourceType::Mime(MimeType::ApplicationJavascript), "function s1() { BODY_S1 }", p_s1);
        let mut s2 = mk_resource("s2.js", &[], ResourceType::Mime(MimeType::ApplicationJavascript), "function s2() { BODY_S2 }", p_s2);
        let dep = mk_resource("shared.fn", &[], ResourceType::Mime(MimeType::FnJavascript), "function shared() { BODY_SHARED }", p_dep);
        if r.pct(70) {
            s1.dependencies = vec!["shared.fn".into()];
        }
        if r.pct(70) {
            s2.dependencies = vec!["shared.fn".into()];
        }
        let mut fs = FilterSet::new(true);
        let mut lists = vec![];
        for _ in 0..nl {
            let lp = perms[r.below(4)];
            let sc = scripts[r.below(2)];
            let arg = *r.pick(&[&"", &"", &", x", &", y"]);
            let rule = format!("example.com##+js({}{})", sc, arg);
            let _ = fs.add_filter(&rule, ParseOptions { permissions: PermissionMask::from_bits(lp), ..Default::default() });
            lists.push((rule, lp));
        }
        let s1d = s1.dependencies.clone();
        let s2d = s2.dependencies.clone();
        let mut e = Engine::from_filter_set(fs, true);
        e.use_resources(vec![s1, s2, dep]);
        let desc = json!({"lists": lists, "perm_s1": p_s1, "perm_s2": p_s2, "perm_shared_dep": p_dep, "s1_deps": s1d, "s2_deps": s2d});
        let script = e.url_cosmetic_resources("https://example.com/").injected_script;
        // the reference, per injection (scriptlet + argument text): it may be emitted only if one list
        // requesting exactly it holds all bits of the scriptlet and of every transitive dependency
        let mut injections: Vec<String> = lists.iter().map(|(rule, _)| rule.clone()).collect();
        injections.sort();
        injections.dedup();
        for inj in injections {
            let (name, p_self, deps) = if inj.contains("(s1") { ("s1", p_s1, &s1d) } else { ("s2", p_s2, &s2d) };
            let call = if inj.ends_with(", x)") { format!("{}(\"x\")", name) } else if inj.ends_with(", y)") { format!("{}(\"y\")", name) } else { format!("{}()", name) };
            let ok = lists.iter().any(|(rule, lp)| *rule == inj && (!lp & p_self) == 0 && (deps.is_empty() || (!lp & p_dep) == 0));
            let present = script.contains(&format!("try {{\n{}\n}}", call));
            if present && !ok {
                let ored: u8 = lists.iter().filter(|(rule, _)| *rule == inj).fold(0, |a, (_, lp)| a | lp);
                let class = if (!ored & p_self) == 0 && (deps.is_empty() || (!ored & p_dep) == 0) { "masks_ored_across_lists" } else { "permission_gate_skipped" };
                out.fail("injection-emitted-without-a-sufficiently-permitted-list", Some(class), json!({"case": desc, "injection": inj}));
            }
            if ok && !present {
                out.fail("permitted-injection-not-emitted", None, json!({"case": desc, "injection": inj}));
            }
            if present && !script.contains(&format!("BODY_{}", name.to_uppercase())) {
                out.fail("call-emitted-without-scriptlet-body", None, json!({"case": desc, "injection": inj}));
            }
        }
        out.oracle_case(&format!("{}", desc), &desc, script.contains("BODY_"));
        out.bump("multi_list_pages");
    }
}

// ---------------------------------------------------------------------------------------------
// (5) assembly of the injected script against the Lean model: stores with aliases, dependency
//     graphs (cycles also through aliases, self loops, missing nodes), function- and template-style
//     bodies, non-injectable kinds, undecodable content; injection lists with repeats under
//     different permission masks
pub fn run_assembly(seed: u64, n: usize, out: &mut Out) {
    use adblock::resources::{Resource, ResourceStorage};
    let mut r = Rng::new(seed ^ 0x1818);
    let names = ["a.js", "b.js", "c.js", "t.js", "u.js", "d.fn", "e.fn", "tpl.js", "img.js", "plain"];
    let aliases = ["aa.js", "bb.js", "cc", "a", "x.js", "dd.fn", "ee.fn", "t"];
    for _ in 0..n {
        let k = 2 + r.below(5);
        let mut storage = ResourceStorage::default();
        let mut dump: Vec<String> = vec![];
        let mut described = vec![];
        // the names of this store (mostly distinct, so that most additions are accepted)
        let mut chosen: Vec<String> = vec![];
        for _ in 0..k {
            let c = r.pick(&names).to_string();
            if !chosen.contains(&c) || r.pct(10) {
                chosen.push(c);
            }
        }
        let mut chosen_aliases: Vec<String> = vec![];
        for name in chosen.clone() {
            let mut al: Vec<String> = vec![];
            for _ in 0..r.below(3) {
                let a = r.pick(&aliases).to_string();
                if r.pct(15) || !chosen_aliases.contains(&a) {
                    al.push(a);
                }
            }
            chosen_aliases.extend(al.iter().cloned());
            let fname: String = name.chars().filter(|c| c.is_ascii_alphanumeric()).collect();
            let (kind, text) = match r.below(12) {
                0 => (ResourceType::Template, format!("/*T:{}*/ {{{{1}}}}-{{{{2}}}}-{{{{1}}}}-{{{{10}}}}", name)),
                1 => (ResourceType::Mime(MimeType::ImageGif), "GIF89a".to_string()),
                2 => (ResourceType::Mime(MimeType::ApplicationJavascript), format!("/*tpl:{}*/ var x = '{{{{1}}}}', y = {{{{2}}}};", name)),
                3 => (ResourceType::Mime(MimeType::ApplicationJavascript), format!("function  {} \t( a ) {{ /*{}*/ }}", fname, name)),
                4 => (ResourceType::Mime(MimeType::ApplicationJavascript), format!("function(){{ /*anon:{}*/ }}", name)),
                5 => (ResourceType::Mime(MimeType::ApplicationJavascript), format!("function {}.x(a){{ /*{}*/ }}", fname, name)),
                6 => (ResourceType::Mime(MimeType::ApplicationJavascript), format!(" function {}(a){{ /*lead-space:{}*/ }}", fname, name)),
                7 => (ResourceType::Mime(MimeType::ApplicationJavascript), format!("function {}{{}}(a){{ /*brace:{}*/ }}", fname, name)),
                8 => (ResourceType::Mime(MimeType::FnJavascript), format!("function {}(a){{ /*fn:{}*/ }}", fname, name)),
                _ => (ResourceType::Mime(MimeType::ApplicationJavascript), format!("function {}(a, b){{ /*{}*/ }}", fname, name)),
            };
            let perm = *r.pick(&[&0u8, &0u8, &0u8, &0u8, &1u8, &2u8, &3u8]);
            let mut res: Resource = mk_resource(&name, &al.iter().map(|s| s.as_str()).collect::<Vec<_>>(), kind.clone(), &text, perm);
            let mut text_opt = Some(text.clone());
            if matches!(kind, ResourceType::Template) && r.pct(25) {
                // Template resources are not validated when they are added
                res.content = "!!!not base64!!!".to_string();
                text_opt = None;
            }
            res.dependencies = vec![];
            for _ in 0..r.below(3) {
                let d = if r.pct(70) { r.pick_s(&chosen) } else if r.pct(70) && !chosen_aliases.is_empty() { r.pick_s(&chosen_aliases) } else if r.pct(50) { r.pick(&aliases).to_string() } else { "missing.fn".to_string() };
                res.dependencies.push(d);
            }
            if !matches!(kind, ResourceType::Mime(MimeType::ApplicationJavascript) | ResourceType::Mime(MimeType::FnJavascript) | ResourceType::Template) {
                res.dependencies.clear();
            }
            let ok = storage.add_resource(res.clone()).is_ok();
            described.push(json!({"name": name, "aliases": al, "kind": kind_name(&kind), "text": text_opt, "permission": perm, "dependencies": res.dependencies, "accepted": ok}));
            if ok {
                dump.push(format!("{};{};{};{};{};{}", hex(&name), hex_list(&al), hex(&kind_name(&kind)), opt_hex(text_opt.as_deref()), perm, hex_list(&res.dependencies)));
            }
        }
        let ni = 1 + r.below(5);
        let mut inj: Vec<(String, u8)> = vec![];
        for _ in 0..ni {
            let raw = match r.below(10) {
                0 => crate::c11::sarg_soup(&mut r),
                1 => format!("{}, {}", r.pick(&["a", "a.js", "aa", "t", "tpl", "b"]), arg_pool(&mut r)),
                2 => r.pick(&["a, {x}", "a, {\"k\": 1}", "", " ", "nosuch", "img.gif", "e", "tpl, $1, $$, {{2}}", "t, {{2}}, x", "a, \"q, r\", 's'", "t.js, 1, 2, 3, 4, 5, 6, 7, 8, 9, 10"]).to_string(),
                _ => {
                    let from_store = if r.pct(70) { r.pick_s(&chosen) } else if !chosen_aliases.is_empty() && r.pct(60) { r.pick_s(&chosen_aliases) } else { "x".to_string() };
                    let from_store = if r.pct(50) { from_store.trim_end_matches(".js").to_string() } else { from_store };
                    let pool_pick = r.pick(&["a", "b", "a.js", "b.js", "c.fn", "aa", "bb", "t", "tpl", "e", "d.fn", "x"]).to_string();
                    let nm = if r.pct(80) { from_store } else { pool_pick };
                    let args: Vec<String> = (0..r.below(3)).map(|_| r.pick(&["x", "1", "$1", "a b", "{{1}}", "\u{e9}", "\"", "\\"]).to_string()).collect();
                    if args.is_empty() { nm.to_string() } else { format!("{}, {}", nm, args.join(", ")) }
                }
            };
            let mask = *r.pick(&[&0u8, &0u8, &1u8, &2u8, &3u8, &3u8]);
            inj.push((raw.clone(), mask));
            if r.pct(30) {
                inj.push((raw, *r.pick(&[&0u8, &1u8, &2u8, &3u8])));
            }
        }
        let inj2 = inj.clone();
        let desc = json!({"resources": described, "injections": inj});
        let got = guarded(std::panic::AssertUnwindSafe(|| storage.get_scriptlet_resources(inj2.iter().map(|(s, m)| (s.as_str(), PermissionMask::from_bits(*m))))));
        match got {
            Err(p) => out.fail("panic-in-scriptlet-assembly", None, json!({"case": desc, "panic": p})),
            Ok(script) => {
                let op = format!("sres\t{}\t{}", if dump.is_empty() { "-".to_string() } else { dump.join("|") },
                    inj.iter().map(|(s, m)| format!("{}:{}", hex(s), m)).collect::<Vec<_>>().join(","));
                out.bump(if script.is_empty() { "assembly_empty" } else { "assembly_nonempty" });
                out.case(&op, &hex(&script), json!({"api": "get_scriptlet_resources", "case": desc, "script": script.chars().take(300).collect::<String>()}), !script.is_empty());
            }
        }
    }
}
