//! C16 / C17: cosmetic rules — per-site resources and the generic class/id lookup.
use crate::net::*;
use crate::util::*;
use adblock::cosmetic_filter_cache::ProceduralOrActionFilter;
use adblock::filters::cosmetic::{CosmeticFilter, CosmeticFilterMask, CosmeticFilterOperator};
use adblock::lists::{parse_filter, ParseOptions, ParsedFilter};
use adblock::resources::{MimeType, ResourceType};
use adblock::Engine;
use serde_json::json;
use std::collections::HashSet;

pub fn parse_cosm(line: &str) -> Option<CosmeticFilter> {
    match parse_filter(line, true, ParseOptions::default()) {
        Ok(ParsedFilter::Cosmetic(f)) => Some(f),
        _ => None,
    }
}

/// what the generic stores of the cache rely on (Lean: `generic_is_plain_hide`): a rule without any
/// location is a plain hide rule
pub fn generic_rule_defect(f: &CosmeticFilter) -> Option<&'static str> {
    if f.has_hostname_constraint() {
        return None;
    }
    if f.mask.contains(CosmeticFilterMask::UNHIDE) {
        Some("a generic exception was loaded")
    } else if f.mask.contains(CosmeticFilterMask::SCRIPT_INJECT) {
        Some("a generic scriptlet injection was loaded")
    } else if f.action.is_some() {
        Some("a generic action rule was loaded")
    } else {
        None
    }
}

fn opt_hashes(o: &Option<Vec<u64>>) -> String {
    match o {
        None => "-".into(),
        Some(v) => format!("+{}", v.iter().map(|x| x.to_string()).collect::<Vec<_>>().join(",")),
    }
}

pub fn dump_crule(f: &CosmeticFilter) -> String {
    let plain = f.plain_css_selector().map(|s| s.to_string());
    let pj = serde_json::to_string(&ProceduralOrActionFilter {
        selector: plain.clone().map(|s| vec![CosmeticFilterOperator::CssSelector(s)]).unwrap_or(f.selector.clone()),
        action: f.action.clone(),
    })
    .unwrap();
    let perm: u8 = serde_json::to_value(&f.permission).ok().and_then(|v| v.as_u64()).unwrap_or(0) as u8;
    format!(
        "{};{};{};{};{};{};{};{};{};{}",
        opt_hashes(&f.entities),
        opt_hashes(&f.hostnames),
        opt_hashes(&f.not_entities),
        opt_hashes(&f.not_hostnames),
        f.mask.contains(CosmeticFilterMask::UNHIDE) as u8,
        f.mask.contains(CosmeticFilterMask::SCRIPT_INJECT) as u8,
        opt_hex(plain.as_deref()),
        f.action.is_some() as u8,
        hex(&pj),
        perm
    )
}

const SELS: &[&str] = &[".ad", ".ad-banner", "#ad", "#top_ad", ".ad.sticky", ".ad .inner", "#banner[data-slot]", ".a\\:b", ".\\31 23", ".\\31 23 .x", "#\\41 d", "div > .x", "[href^=\"x\"]", "a[x]", ".x:hover", ".\\ffffffffff x", ".[a]", ".", "#", ".-", "._a", "#-x_y", ".ad\\.x", "div", "*", ".AD", ".ad\\", ".a\\\nb", ".x > #y", "##", ".ad,.b"];
/// the shapes of known finding F15: the lead (`.` / `#`) is not followed by an identifier start the key
/// extraction accepts (nothing, a non-word character, or an escape that is not a valid code point)
fn is_f15_shape(sel: &str) -> bool {
    let mut it = sel.chars();
    it.next();
    match it.next() {
        None => true,
        Some(c) if c.is_alphanumeric() || c == '_' || c == '-' => false,
        Some('\\') => {
            let rest: String = it.collect();
            let hexes: String = rest.chars().take_while(|c| c.is_ascii_hexdigit()).collect();
            if !hexes.is_empty() && rest[hexes.len()..].starts_with(' ') {
                match u32::from_str_radix(&hexes, 16) {
                    Ok(v) => char::from_u32(v).is_none(),
                    Err(_) => true,
                }
            } else {
                // `\` + any character is a valid escape; a trailing lone backslash or backslash-newline is not
                rest.is_empty() || rest.starts_with('\n')
            }
        }
        Some(_) => true,
    }
}

const HOSTS: &[&str] = &["a.com", "sub.a.com", "x.sub.a.com", "b.co.uk", "s.b.co.uk", "c.org", "localhost", "a.b.c.d.e.com", "10.0.0.1", "xn--bcher-kva.example", "hr.apps.portal.lan", "portal.lan", "x.sub.a.corp"];

fn sel(r: &mut Rng) -> String {
    r.pick(SELS).to_string()
}

fn location(r: &mut Rng) -> String {
    let mut parts = vec![];
    for _ in 0..r.below(4) {
        let h = r.pick(&["a.com", "sub.a.com", "x.sub.a.com", "b.co.uk", "s.b.co.uk", "co.uk", "com", "c.org", "a.*", "sub.a.*", "b.*", "s.b.*", "localhost", "e.com", "d.e.com", "10.0.0.1", "portal.lan", "apps.portal.lan", "lan", "portal.*", "apps.portal.*", "hr.*", "a.corp", "sub.a.corp", "b\u{fc}cher.example", "m\u{fc}nchen.b\u{fc}cher.example", "\u{43f}\u{440}\u{438}\u{43c}\u{435}\u{440}.\u{440}\u{444}"]);
        parts.push(format!("{}{}", if r.pct(25) { "~" } else { "" }, h));
    }
    // a location list that is present but empty, or has empty parts
    if r.pct(6) {
        parts.insert(0, String::new());
        if parts.len() == 1 {
            parts.push(String::new());
        }
    }
    parts.join(",")
}

pub fn gen_rule(r: &mut Rng, scripts: &[String]) -> String {
    let loc = location(r);
    let sep = if r.pct(25) { "#@#" } else { "##" };
    let body = match r.below(10) {
        0 => format!("{}:style(color: red)", sel(r)),
        1 => format!("{}:remove()", sel(r)),
        2 => format!("{}:remove-attr(x)", sel(r)),
        3 | 4 => format!("+js({})", r.pick_s(scripts)),
        5 if sep == "#@#" => "+js()".to_string(),
        6 => format!("{}:has-text(x)", sel(r)),
        _ => sel(r),
    };
    format!("{}{}{}{}", loc, sep, if r.pct(6) { " " } else { "" }, body)
}

/// Several rules for ONE host that land in every per-host store at once: plain hide, `:style`, a
/// non-style action, a procedural rule, an injection, and exceptions for some of them (incl. the blanket
/// `#@#+js()`). Per-host stores that are merged, converted or re-keyed (serialization, incremental
/// updates) have to keep all of them apart.
pub fn host_bundle(r: &mut Rng, host: &str, scriptlet: &str) -> Vec<String> {
    let mut v = vec![
        format!("{}##.b-hide", host),
        format!("{}##.b-style:style(color: red)", host),
        format!("{}##.b-style2:style(max-height: none !important)", host),
        format!("{}##.b-remove:remove()", host),
        format!("{}##.b-attr:remove-attr(x)", host),
        format!("{}##.b-proc:has-text(x)", host),
        format!("{}##+js({})", host, scriptlet),
        format!("{}##+js({}, x)", host, scriptlet),
    ];
    // keep a random non-empty subset, then add exceptions for rules of the same host
    v.retain(|_| r.pct(70));
    match r.below(6) {
        0 => v.push(format!("{}#@#.b-style:style(color: red)", host)),
        1 => v.push(format!("{}#@#.b-hide", host)),
        2 => v.push(format!("{}#@#+js()", host)),
        3 => v.push(format!("{}#@#+js({})", host, scriptlet)),
        4 => v.push(format!("sub.{}#@#+js()", host)),
        _ => {}
    }
    v
}

pub fn script_pool() -> Vec<String> {
    vec!["f1".into(), "f1, x".into(), "f2, a, b".into(), "f3".into(), "f2, \"q,r\"".into(), "f1, y".into()]
}

fn call_of(raw: &str) -> Option<String> {
    let args = adblock::resources::verif_parse_scriptlet_args(raw)?;
    let name = args.get(0)?.clone();
    let rest: Vec<String> = args[1..].iter().map(|a| serde_json::to_string(a).unwrap()).collect();
    Some(format!("{}({})", name, rest.join(", ")))
}

fn set_str(s: &HashSet<String>) -> String {
    let mut v: Vec<String> = s.iter().map(|x| hex(x)).collect();
    v.sort();
    v.join(",")
}

pub fn run_c16(seed: u64, n: usize, out: &mut Out) {
    let mut r = Rng::new(seed);
    let psl = crate::c12::Psl::load();
    let scripts = script_pool();
    let resources: Vec<_> = ["f1", "f2", "f3"].iter().map(|n| mk_resource(&format!("{}.js", n), &[], ResourceType::Mime(MimeType::ApplicationJavascript), &format!("function {}() {{ BODY }}", n), 0)).collect();
    // injections that cannot be resolved (scriptlet not loaded, or needing a permission the list does not have) next to ones that
    // can: every resolvable injection scoped to the host is emitted, on every call (the scriptlets are visited in hash-map order)
    for _ in 0..(n / 25).max(8) {
        let h: &str = r.pick(&["a.com", "b.co.uk", "c.org"]);
        let mut lines = vec![format!("{}##+js(f1, one)", h), format!("sub.{}##+js(f2, two)", h)];
        let ent = h.split('.').next().unwrap_or("a");
        for k in 0..1 + r.below(3) {
            lines.push(match r.below(4) {
                0 => format!("{}.*##+js(not-loaded-{}, three)", ent, k),
                1 => format!("{}##+js(nope{}.js)", h, k),
                2 => format!("sub.{}##+js(missing, {})", h, k),
                _ => format!("{}##+js(f2, extra{})", h, k),
            });
        }
        let mut e = Engine::from_rules_parametrised(&lines, Default::default(), true, true);
        e.use_resources(resources.clone());
        let url = format!("https://sub.{}/page", h);
        for rep in 0..24 {
            let got = e.url_cosmetic_resources(&url).injected_script;
            let have: HashSet<&str> = got.lines().collect();
            for want in ["f1(\"one\")", "f2(\"two\")"] {
                if !have.contains(want) {
                    out.fail("resolvable-injection-missing-next-to-an-unresolvable-one", None, json!({"rules": lines, "url": url, "call": rep, "missing": want, "injected_script": got}));
                }
            }
            out.bump("unresolvable_injection_probes");
        }
    }
    for _ in 0..n {
        let nr = 1 + r.below(10);
        let mut lines: Vec<String> = (0..nr).map(|_| gen_rule(&mut r, &scripts)).collect();
        if r.pct(30) {
            let h = r.pick(HOSTS).to_string();
            lines.extend(host_bundle(&mut r, &h, "f1"));
        }
        if r.pct(30) {
            lines.push(format!("@@||{}^$generichide", r.pick(HOSTS)));
        }
        if r.pct(35) {
            // scoped generichide exceptions: the page is a first-party document request initiated by itself
            let h = r.pick(HOSTS);
            lines.push(match r.below(8) {
                0 => format!("@@*$ghide,domain={}", h),
                1 => format!("@@||{}^$generichide,domain={}", h, h),
                2 => format!("@@||{}^$generichide,1p", h),
                3 => format!("@@||{}^$generichide,3p", h),
                4 => format!("@@*$generichide,domain=~{}", h),
                5 => format!("@@|https://{}/p|$generichide", h),
                6 => format!("@@||{}^$generichide,domain={}|~sub.{}", h, h, h),
                _ => format!("@@/p$ghide,first-party,domain={}", h),
            });
            if r.pct(15) {
                let l = lines.last().unwrap().clone();
                lines.push(format!("{},badfilter", l));
            }
        }
        crate::c11::emit_cplines(out, &lines);
        crate::c11::emit_plines(out, &lines.iter().filter(|l| !l.contains('#')).cloned().collect::<Vec<_>>());
        let mut e = Engine::from_rules_parametrised(&lines, Default::default(), true, true);
        if r.pct(35) {
            // the answers of a saved and reloaded engine are the same function of the rules
            if let Ok(bytes) = e.serialize_raw() {
                let mut e2 = Engine::new(true);
                if e2.deserialize(&bytes).is_ok() {
                    e = e2;
                    out.bump("c16_engines_reloaded");
                }
            }
        }
        e.use_resources(resources.clone());
        let mut ghide_rules = parse_all(&lines);
        ghide_rules.retain(|p| p.has(adblock::filters::network::NetworkFilterMask::GENERIC_HIDE));
        let bad_ids: HashSet<u64> = parse_all(&lines).iter().filter(|p| p.has(adblock::filters::network::NetworkFilterMask::BAD_FILTER)).map(|p| p.f.get_id_without_badfilter()).collect();
        let crules: Vec<CosmeticFilter> = lines.iter().filter_map(|l| parse_cosm(l)).collect();
        for f in &crules {
            if let Some(what) = generic_rule_defect(f) {
                out.fail("generic-rule-is-not-a-plain-hide", None, json!({"rule": f.raw_line.as_ref().map(|b| (**b).clone()), "what": what}));
            }
        }
        let dumps: Vec<String> = crules.iter().map(dump_crule).collect();
        // the locations of each rule, recomputed from its text through the URL normaliser (an independent
        // route to the punycode spelling), must be the hashes the parser stored
        for l in &lines {
            if let Some(f) = parse_cosm(l) {
                let sharp = match l.find("#@#").or_else(|| l.find("##")) { Some(i) => i, None => continue };
                let mut exp: [Vec<u64>; 4] = Default::default(); // entities, hostnames, not_entities, not_hostnames
                let mut ok = true;
                for loc in l[..sharp].split(',').filter(|x| !x.is_empty()) {
                    let (neg, name) = match loc.strip_prefix('~') { Some(n) => (true, n), None => (false, loc) };
                    let (ent, name) = match name.strip_suffix(".*") { Some(n) => (true, n), None => (false, name) };
                    let puny = match adblock::request::Request::new(&format!("https://{}/", name), "", "other") { Ok(q) => q.hostname, Err(_) => { ok = false; break } };
                    exp[(neg as usize) * 2 + (!ent as usize)].push(adblock::utils::fast_hash(&puny));
                }
                if !ok { continue; }
                let got = [f.entities.clone(), f.hostnames.clone(), f.not_entities.clone(), f.not_hostnames.clone()];
                let names = ["entities", "hostnames", "not_entities", "not_hostnames"];
                for k in 0..4 {
                    let mut a = exp[k].clone(); a.sort(); a.dedup();
                    let mut b = got[k].clone().unwrap_or_default(); b.sort(); b.dedup();
                    if a != b {
                        out.fail("rule-location-hashes-differ-from-text", None, json!({"rule": l, "which": names[k]}));
                    }
                }
                out.bump("location_hash_probes");
            }
        }
        for _ in 0..3 {
            let host = r.pick(HOSTS).to_string();
            let url = format!("https://{}/p", host);
            let res = match guarded(std::panic::AssertUnwindSafe(|| e.url_cosmetic_resources(&url))) {
                Ok(x) => x,
                Err(p) => {
                    out.fail("panic-in-cosmetic-query", None, json!({"rules": lines, "url": url, "panic": p}));
                    continue;
                }
            };
            // the answer depends on the page's host alone: other spellings of a URL on the same host (query or
            // fragment directly after the host, `@` outside the authority, user information, a port, upper case)
            // get the same cosmetic resources
            if ghide_rules.is_empty() && host.is_ascii() {
                for alt in [format!("https://{}?contact=admin@c.org", host), format!("https://{}#@x", host), format!("https://{}:8080/p?x=@y", host),
                            format!("https://user@{}/p", host), format!("HTTPS://{}/p", host.to_uppercase()), format!("https://{}/q/r?s#t", host)] {
                    if let Ok(Some(ra)) = guarded(std::panic::AssertUnwindSafe(|| Some(e.url_cosmetic_resources(&alt)))) {
                        if ra.hide_selectors != res.hide_selectors || ra.procedural_actions != res.procedural_actions || ra.exceptions != res.exceptions || {
                            // (scriptlets are emitted in hash-map order: compare the lines as a set)
                            let mut a: Vec<&str> = ra.injected_script.lines().collect();
                            let mut b: Vec<&str> = res.injected_script.lines().collect();
                            a.sort();
                            b.sort();
                            a != b
                        } {
                            out.fail("cosmetic-answer-depends-on-more-than-the-host", None, json!({"rules": lines, "url": url, "other_spelling": alt}));
                        }
                        out.bump("url_spelling_probes");
                    }
                }
            }
            // generichide, rule by rule: some live $generichide exception matches the page as a document
            // request initiated by the page itself
            if let Ok(doc) = adblock::request::Request::new(&url, &url, "document") {
                let mut expect = false;
                for pr in ghide_rules.iter_mut() {
                    if !bad_ids.contains(&pr.f.get_id()) && !pr.has(adblock::filters::network::NetworkFilterMask::BAD_FILTER) && pr.matches(&doc) {
                        expect = true;
                    }
                }
                if expect != res.generichide {
                    out.fail("generichide-flag-differs-from-rule-by-rule", None, json!({"rules": lines, "url": url, "generichide": res.generichide, "rule_by_rule": expect}));
                }
                out.bump(if expect { "generichide_expected" } else { "generichide_not_expected" });
            }
            let (ds, de) = adblock::url_parser::verif_get_host_domain(&host);
            let impl_domain = host[ds..de].to_string();
            // the registrable domain the label walk stops at, from the public-suffix rule file itself (default
            // rule `*` for unknown top-level domains; an address is its own domain)
            let ref_domain = match &psl {
                Some(p) if crate::c12::is_tame_host(&host) => p.domain(&host),
                _ => impl_domain.clone(),
            };
            if ref_domain != impl_domain {
                out.fail("registrable-domain-differs-from-reference", None, json!({"host": host, "impl_domain": impl_domain, "reference_domain": ref_domain}));
            }
            let domain = ref_domain.as_str();
            // surviving injections, recovered from the emitted calls
            let mut inj: HashSet<String> = HashSet::new();
            let script_lines: HashSet<&str> = res.injected_script.lines().collect();
            for raw in &scripts {
                if let Some(c) = call_of(raw) {
                    if script_lines.contains(c.as_str()) {
                        inj.insert(raw.clone());
                    }
                }
            }
            let imp = format!("H={}/P={}/E={}/I={}", set_str(&res.hide_selectors), set_str(&res.procedural_actions), set_str(&res.exceptions), set_str(&inj));
            // the model is told whether generichide applies (the network side decides that: C01/C03)
            let op = if dumps.is_empty() {
                format!("chost\t{}\t{}\t{}", hex(&host), hex(domain), res.generichide as u8)
            } else {
                format!("chost\t{}\t{}\t{}\t{}", hex(&host), hex(domain), res.generichide as u8, dumps.join("\t"))
            };
            let nontrivial = !res.hide_selectors.is_empty() || !res.procedural_actions.is_empty() || !res.exceptions.is_empty() || !inj.is_empty();
            if res.generichide {
                out.bump("generichide_pages");
            }
            if !inj.is_empty() {
                out.bump("pages_with_injection");
            }
            out.case(&op, &imp, json!({"rules": lines, "host": host, "domain": domain, "hide": res.hide_selectors.len(), "procedural": res.procedural_actions.len(), "exceptions": res.exceptions.len(), "injections": inj.len()}), nontrivial);
        }
    }
}

pub fn run_c17(seed: u64, n: usize, out: &mut Out) {
    let mut r = Rng::new(seed);
    // (1) key extraction
    let pieces = [".", "#", "a", "b", "-", "_", "\\", "\\:", "\\31 ", "\\41", " ", "\\ffffffffff ", "\\d800 ", "\\110000 ", "\\0 ", "[", ">", "1", "A", "\\\n", "\\ ", ":", "\\\u{e9}", "\\\u{5e83}", "\\\u{1f600}", "\u{e9}", "\u{5e83}\u{544a}", "\\\u{e9} ", "\\e9 "];
    for _ in 0..n {
        let k = 1 + r.below(6);
        let mut s = String::from(*r.pick(&[&".", &"#", &".", &"#", &"d"]));
        for _ in 0..k {
            s.push_str(r.pick(&pieces));
        }
        let imp = opt_hex(adblock::cosmetic_filter_cache::verif_key_from_selector(&s).as_deref());
        out.case(&format!("key\t{}", hex(&s)), &imp, json!({"selector": s, "key": imp}), imp != "-");
    }
    for s in SELS {
        let imp = opt_hex(adblock::cosmetic_filter_cache::verif_key_from_selector(s).as_deref());
        out.case(&format!("key\t{}", hex(s)), &imp, json!({"selector": s, "key": imp}), imp != "-");
    }
    // (2) generic lookup and the reachability partition
    for _ in 0..n / 2 {
        let nr = 1 + r.below(10);
        let mut lines: Vec<String> = vec![];
        // plain CSS selectors (non-ASCII identifiers included) of which it is known that the rule is a cosmetic one
        let mut known_plain: Vec<String> = vec![];
        for _ in 0..nr {
            let from_fixed_list = r.pct(20);
            let s = if from_fixed_list { r.pick(&["#\u{43d}\u{435}\u{434}\u{435}\u{43b}\u{44f}", ".\u{440}\u{435}\u{43a}\u{43b}\u{430}\u{43c}\u{430}", ".ad-\u{431}\u{430}\u{43d}\u{43d}\u{435}\u{440}", "#pub-publicit\u{e9} > div", ".promo\\:st\u{f8}rre", ".caf\\\u{e9}-banner", ".caf\\\u{e9}-banner > .inner", "#\\\u{5e83}\u{544a}-top", ".x\\\u{1f600}y", ".\u{65e5}\u{672c}\u{8a9e}\u{5e83}\u{544a}", "#\u{5e83}\u{544a} > div", ".a\u{e9}-box .inner", ".\u{5e83}", "#a\u{5e83}",
                // zero-width (non-)joiners are ordinary identifier characters (Persian, Indic scripts): nothing may be removed from a rule line
                ".\u{645}\u{6cc}\u{200c}\u{62e}\u{648}\u{627}\u{647}\u{645}", "#\u{646}\u{631}\u{645}\u{200c}\u{627}\u{641}\u{632}\u{627}\u{631}", ".a\u{200d}b > div", ".\u{915}\u{94d}\u{200d}\u{937}", "#x\u{200b}y", ".z\u{feff}w"]).to_string() } else { sel(&mut r) };
            if from_fixed_list {
                known_plain.push(s.clone());
            }
            // (white space between the separator and the selector is not part of the selector)
            let gap = if r.pct(12) { *r.pick(&[&" ", &"\t", &"  "]) } else { "" };
            lines.push(match r.below(8) {
                0 => format!("~a.com##{}{}", gap, s),  // only negated hosts: a hidden generic rule
                1 => format!("a.com##{}{}", gap, s),   // site specific: must not be reachable generically
                _ => format!("##{}{}", gap, s),
            });
        }
        // the same class / id as a bare selector and as the lead of longer ones (two stores, one key)
        if r.pct(35) {
            let c = *r.pick(&[&"ad", &"ad-banner", &"x", &"a\\:b"]);
            lines.push(format!("##.{}", c));
            lines.push(format!("##.{} + .caption", c));
            lines.push(format!("##.{} > div[data-x]", c));
            let i = *r.pick(&[&"ad", &"top_ad", &"banner"]);
            lines.push(format!("###{}", i));
            lines.push(format!("###{} ~ .promo", i));
        }
        // names are compared exactly: an identifier that begins or ends with an (escaped) space is its own name, and a padded
        // spelling of an ordinary name is another name
        let spaced = r.pct(30);
        if spaced {
            lines.push("###\\ rek".to_string());
            lines.push("##.sponsor\\  > a".to_string());
            lines.push("##.plain".to_string());
            lines.push("###plainid".to_string());
        }
        crate::c11::emit_cplines(out, &lines);
        let mut e = Engine::from_rules_parametrised(&lines, Default::default(), true, true);
        // the lookup answers the same after the engine went through serialize / deserialize
        if r.pct(35) {
            if let Ok(bytes) = e.serialize_raw() {
                let mut e2 = Engine::new(true);
                if e2.deserialize(&bytes).is_ok() {
                    e = e2;
                    out.bump("c17_reloaded_engines");
                } else {
                    out.fail("deserialize-of-own-serialization-failed", None, json!({"rules": lines}));
                }
            }
        }
        let crules: Vec<CosmeticFilter> = lines.iter().filter_map(|l| parse_cosm(l)).collect();
        for f in &crules {
            if let Some(what) = generic_rule_defect(f) {
                out.fail("generic-rule-is-not-a-plain-hide", None, json!({"rule": f.raw_line.as_ref().map(|b| (**b).clone()), "what": what}));
            }
        }
        let dumps: Vec<String> = crules.iter().map(dump_crule).collect();
        let classes: Vec<String> = (0..r.below(4)).map(|_| r.pick(&["ad", "ad-banner", "a:b", "123", "x", "AD", "_a", "ad.x", "nope", ""]).to_string()).collect();
        let ids: Vec<String> = (0..r.below(3)).map(|_| r.pick(&["ad", "top_ad", "Ad", "banner", "-x_y", "nope"]).to_string()).collect();
        let (mut classes, mut ids) = (classes, ids);
        if spaced || r.pct(15) {
            classes.push(r.pick(&["sponsor ", " plain", "plain ", "\tad", " ad", "ad ", " ", "sponsor", "plain", "ad\u{a0}"]).to_string());
            ids.push(r.pick(&[" rek", "rek", " plainid", "plainid ", "ad ", " top_ad", "  ", "plainid"]).to_string());
        }
        let exc: HashSet<String> = (0..r.below(3)).map(|_| sel(&mut r)).collect();
        let got = e.hidden_class_id_selectors(&classes, &ids, &exc);
        let mut gh: Vec<String> = got.iter().map(|x| hex(x)).collect();
        gh.sort();
        let excl: Vec<String> = exc.iter().cloned().collect();
        if dumps.is_empty() {
            continue;
        }
        if lines.iter().all(|l| l.is_ascii())
        {
        out.case(&format!("cgen\t{}\t{}\t{}\t{}", hex_list(&classes), hex_list(&ids), hex_list(&excl), dumps.join("\t")), &gh.join(","), json!({"rules": lines, "classes": classes, "ids": ids, "exceptions": excl, "returned": got}), !got.is_empty());
        }
        // partition: every generic selector is reachable exactly one way
        let site = e.url_cosmetic_resources("https://unrelated.example/");
        for l in &lines {
            if l.starts_with("a.com##") {
                continue;
            }
            let s = match parse_cosm(l).and_then(|f| f.plain_css_selector().map(|x| x.to_string())) {
                Some(s) => s,
                None => {
                    // a line of the form `[~a.com]##<plain selector>` is a cosmetic rule, whatever characters the selector has
                    if let Some(k) = known_plain.iter().find(|k| l.ends_with(k.as_str())) {
                        out.fail("cosmetic-rule-not-loaded-as-one", None, json!({"line": l, "selector": k}));
                    }
                    continue;
                }
            };
            // the selector of a rule is the text after the separator, character for character (the loader removes nothing from it)
            if let Some(k) = known_plain.iter().find(|k| l.ends_with(k.as_str())) {
                if &s != k {
                    out.fail("selector-text-altered-by-the-loader", None, json!({"line": l, "selector_in_the_line": k, "selector_loaded": s}));
                }
                out.bump("known_selector_text_probes");
            }
            let key = adblock::cosmetic_filter_cache::verif_key_from_selector(&s);
            let via_site = site.hide_selectors.contains(&s);
            let via_lookup = match &key {
                Some(k) if k.starts_with('.') => e.hidden_class_id_selectors(&[k[1..].to_string()], &Vec::<String>::new(), &HashSet::new()).contains(&s),
                Some(k) if k.starts_with('#') => e.hidden_class_id_selectors(&Vec::<String>::new(), &[k[1..].to_string()], &HashSet::new()).contains(&s),
                _ => false,
            };
            if via_site && via_lookup {
                out.fail("generic-selector-reachable-both-ways", None, json!({"rules": lines, "selector": s}));
            }
            if !via_site && !via_lookup {
                let class = if key.is_none() && (s.starts_with('.') || s.starts_with('#')) && is_f15_shape(&s) { Some("selector_without_extractable_key") } else { None };
                out.fail("generic-selector-reachable-neither-way", class, json!({"rules": lines, "selector": s, "key": key}));
            }
            out.bump("partition_probes");
        }
    }
}
