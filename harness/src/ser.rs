//! C08 (round trip), C09 (determinism / fixpoint), C10 (hostile data): the wire layer.
use crate::cosm;
use crate::gen;
use crate::net::*;
use crate::util::*;
use crate::c01::std_resources;
use adblock::lists::{FilterSet, ParseOptions};
use adblock::resources::PermissionMask;
use adblock::Engine;
use serde_json::json;
use std::collections::HashSet;

fn gen_lists(r: &mut Rng) -> (Vec<String>, Vec<String>) {
    let o = gen::RuleOpts { extra: true, full_regex: false };
    let mut net: Vec<String> = (0..1 + r.below(8)).map(|_| gen::rule(r, &o)).collect();
    if r.pct(50) {
        net.extend(gen::cluster(r, &gen::ALL_ON));
    }
    if r.pct(40) {
        // rules identical except for their tag
        let body = r.pick(&["||tracker.example.net/pixel.gif", "/adframe/x", "@@||tracker.example.net/pixel.gif", "/adframe/x$important"]).to_string();
        let sep = if body.contains('$') { "," } else { "$" };
        net.push(format!("{}{}tag=t1", body, sep));
        net.push(format!("{}{}tag=t2", body, sep));
        if body.starts_with("@@") {
            net.push("||tracker.example.net^".into());
        }
    }
    if r.pct(35) {
        // equal-priority redirects sharing a bucket, one of them stored in several buckets: which one is
        // reported depends on the order inside the bucket, which a reload must keep
        let d = *r.pick(&[&"shop.test", &"cdn.test"]);
        let ty = *r.pick(&[&"script", &"image"]);
        net.push(format!("*${},redirect=a.js,domain={}|other.net", ty, d));
        net.push(format!("*${},redirect=b.gif,domain={}", ty, d));
        if r.pct(50) {
            net.push(format!("*${},redirect-rule=alias-a,domain={}|sub.{}", ty, d, d));
        }
    }
    net.retain(|l| parse_net(l, true).map(|f| !f.mask.contains(adblock::filters::network::NetworkFilterMask::IS_COMPLETE_REGEX)).unwrap_or(true));
    let scripts = cosm::script_pool();
    let mut cos: Vec<String> = (0..r.below(8)).map(|_| cosm::gen_rule(r, &scripts)).collect();
    if r.pct(45) {
        let h = r.pick(&["a.com", "x.sub.a.com", "s.b.co.uk", "c.org", "sub.a.com"]).to_string();
        cos.extend(cosm::host_bundle(r, &h, "f1"));
    }
    (net, cos)
}

fn strip(v: &adblock::blocker::BlockerResult) -> String {
    format!("{},{},{},{}", v.matched, v.important, v.exception.is_some(), v.rewritten_url.clone().unwrap_or_default())
}

fn sorted(s: &HashSet<String>) -> Vec<String> {
    let mut v: Vec<String> = s.iter().cloned().collect();
    v.sort();
    v
}

fn script_lines(s: &str) -> Vec<String> {
    let mut v: Vec<String> = s.lines().map(|x| x.to_string()).collect();
    v.sort();
    v
}

pub fn run_c08(seed: u64, n: usize, out: &mut Out) {
    let mut r = Rng::new(seed);
    let resources = {
        let mut v = std_resources();
        for n in ["f1", "f2", "f3"] {
            v.push(mk_resource(&format!("{}.js", n), &[], adblock::resources::ResourceType::Mime(adblock::resources::MimeType::ApplicationJavascript), &format!("function {}() {{ BODY }}", n), if n == "f3" { 1 } else { 0 }));
        }
        v
    };
    for _ in 0..n {
        let (net, cos) = gen_lists(&mut r);
        let debug = r.pct(50);
        let optimize = r.pct(50);
        let list_perm: u8 = if r.pct(30) { 1 } else { 0 };
        let mut fs = FilterSet::new(debug);
        let mut all: Vec<String> = net.clone();
        all.extend(cos.iter().cloned());
        fs.add_filters(&all, ParseOptions { permissions: PermissionMask::from_bits(list_perm), ..Default::default() });
        let mut a = Engine::from_filter_set(fs, optimize);
        a.use_resources(resources.clone());
        let tags_a: Vec<String> = (0..r.below(3)).map(|_| r.pick(&["t1", "t2"]).to_string()).collect();
        a.use_tags(&tags_a.iter().map(|s| s.as_str()).collect::<Vec<_>>());
        let bytes = match a.serialize_raw() {
            Ok(b) => b,
            Err(_) => {
                out.fail("serialize-failed", None, json!({"rules": all}));
                continue;
            }
        };
        let mut b = Engine::new(!optimize);
        b.use_resources(resources.clone());
        // the destination engine keeps the tags it had before loading
        let pre: Vec<&str> = match r.below(4) {
            0 => vec!["t1"],
            1 => vec!["t2"],
            2 => vec!["zz"],
            _ => vec!["t1", "t2"],
        };
        b.use_tags(&pre);
        if b.deserialize(&bytes).is_err() {
            out.fail("deserialize-of-own-serialization-failed", None, json!({"rules": all}));
            continue;
        }
        let has_rp = net.iter().any(|l| l.contains("removeparam="));
        let parsed = parse_all(&net);
        crate::c11::emit_plines(out, &net);
        let dumps: Vec<String> = parsed.iter().map(|p| dump_rule(&p.f, false)).collect();
        if !dumps.is_empty() {
            out.case(&format!("hnew\t{}\t{}", optimize as u8, dumps.join("\t")), "ok", json!({"rules": net, "optimize": optimize}), false);
            out.case("hreload", "ok", json!({"op": "serialize -> deserialize into another engine"}), true);
        }
        for it in 0..4 {
            // first the tags the destination had before loading (set on the original only), then any tag set applied to both
            let tags: Vec<String> = if it == 0 { pre.iter().map(|s| s.to_string()).collect() } else { (0..r.below(3)).map(|_| r.pick(&["t1", "t2"]).to_string()).collect() };
            let tr: Vec<&str> = tags.iter().map(|s| s.as_str()).collect();
            a.use_tags(&tr);
            if it != 0 {
                b.use_tags(&tr);
            } else {
                out.bump("tags_kept_from_before_the_load");
            }
            if !dumps.is_empty() {
                let mut cur: Vec<String> = b.verif_blocker().tags_enabled().iter().map(|t| hex(t)).collect();
                cur.sort();
                out.case(&format!("htags\tuse\t{}", hex_list(&tags)), &format!("+{}", cur.join(",")), json!({"use_tags": tags}), false);
            }
            // a query aimed at the equal-priority redirect twins, when the list has them
            let aimed: Option<(String, String, String)> = net.iter().find(|l| l.contains(",redirect=a.js,domain=")).map(|l| {
                let ty = l[2..].split(',').next().unwrap().to_string();
                let d = l.split("domain=").nth(1).unwrap().split('|').next().unwrap().to_string();
                ("https://cdn.test/x1".to_string(), format!("https://{}/", d), ty)
            });
            for k in 0..3 {
                let (mut u, mut s, mut t) = gen::cluster_url(&mut r, &net);
                if r.pct(30) {
                    u = r.pick(&["https://tracker.example.net/pixel.gif", "https://cdn.test/adframe/x"]).to_string();
                }
                if let (0, Some((au, asrc, aty))) = (k, &aimed) {
                    u = au.clone();
                    s = asrc.clone();
                    t = aty.clone();
                }
                if it == 0 && k > 0 && net.iter().any(|l| l.ends_with("tag=t1")) {
                    u = ["https://tracker.example.net/pixel.gif", "https://cdn.test/adframe/x"][k - 1].to_string();
                }
                if !u.is_ascii() {
                    continue;
                }
                let q = match make_req(&u, &s, &t) {
                    Some(q) => q,
                    None => continue,
                };
                let va = a.check_network_request(&q.req);
                let vb = b.check_network_request(&q.req);
                let desc = json!({"rules": all, "debug": debug, "optimize": optimize, "tags": tags, "url": u, "source": s, "type": t, "original": show_verdict(&va), "deserialized": show_verdict(&vb)});
                let class = if has_rp { Some("removeparam_list_not_serialized") } else { None };
                if strip(&va) != strip(&vb) || va.redirect != vb.redirect {
                    out.fail("network-answer-differs-after-reload", class, desc.clone());
                }
                if a.get_csp_directives(&q.req).map(|c| show_csp(&Some(c))) != b.get_csp_directives(&q.req).map(|c| show_csp(&Some(c))) {
                    out.fail("csp-answer-differs-after-reload", None, desc.clone());
                }
                if !dumps.is_empty() {
                    out.case(&format!("hchk\t{}\t{}", dump_store(&resources), q.dump), &show_verdict(&vb), json!({"rules": net, "tags": tags, "url": u, "source": s, "type": t, "class": class, "after": "reload"}), vb.matched || vb.exception.is_some());
                }
            }
            // cosmetic
            for host in ["a.com", "x.sub.a.com", "s.b.co.uk", "c.org"] {
                let url = format!("https://{}/", host);
                let ca = a.url_cosmetic_resources(&url);
                let cb = b.url_cosmetic_resources(&url);
                let class = if list_perm != 0 && cos.iter().any(|l| l.contains("+js(f3")) { Some("script_permission_not_serialized") } else { None };
                if sorted(&ca.hide_selectors) != sorted(&cb.hide_selectors) || sorted(&ca.procedural_actions) != sorted(&cb.procedural_actions) || sorted(&ca.exceptions) != sorted(&cb.exceptions) || ca.generichide != cb.generichide {
                    out.fail("cosmetic-answer-differs-after-reload", None, json!({"rules": all, "url": url}));
                }
                if script_lines(&ca.injected_script) != script_lines(&cb.injected_script) {
                    out.fail("injected-script-differs-after-reload", class, json!({"rules": all, "url": url, "list_permission": list_perm}));
                }
                out.bump("cosmetic_probes");
            }
            let classes = ["ad", "ad-banner", "x", "a:b"];
            let ids = ["ad", "top_ad"];
            let mut la = a.hidden_class_id_selectors(&classes, &ids, &HashSet::new());
            let mut lb = b.hidden_class_id_selectors(&classes, &ids, &HashSet::new());
            la.sort();
            lb.sort();
            if la != lb {
                out.fail("class-id-lookup-differs-after-reload", None, json!({"rules": all}));
            }
        }
        out.bump("round_trips");
    }
}

pub fn ser_hex(lines: &[String], optimize: bool, debug: bool) -> Option<String> {
    let e = Engine::from_rules_parametrised(lines, Default::default(), debug, optimize);
    e.serialize_raw().ok().map(|b| hex_bytes(&b))
}

pub fn run_c09(seed: u64, n: usize, out: &mut Out) {
    let mut r = Rng::new(seed);
    let exe = std::env::current_exe().unwrap();
    for k in 0..n {
        let (mut net, cos) = gen_lists(&mut r);
        // bucket-sharing clusters, rules stored in several buckets (token-less with several domains)
        net.extend(gen::cluster_same_mask(&mut r, &gen::ALL_ON));
        if r.pct(50) {
            // rules stored in several buckets next to single-bucket rules, with varying id order
            for k in 0..1 + r.below(3) {
                let t1 = r.pick(&["script", "image", "font", "xhr", "media"]);
                let t2 = r.pick(&["script", "image", "font", "xhr", "media"]);
                net.push(format!("*${},third-party,domain=news.example|blog{}.example", t1, k));
                net.push(format!("*${},third-party,domain=news.example", t2));
                net.push(format!("*${},domain=blog{}.example", t2, k));
            }
            net.push("/adframe/$script".into());
            net.push("/adframe/$image".into());
            net.push("/adframe/$font".into());
        }
        if r.pct(50) {
            // families of fusable rules in which two different lines are the same rule (same pattern, same mask,
            // options spelled in another order): whatever de-duplicates or orders them must not depend on hashing
            for k in 0..2 + r.below(6) {
                net.push(format!("/adfamily{}/x1$script,image", k));
                net.push(format!("/adfamily{}/x1$image,script", k));
                net.push(format!("/adfamily{}/x2$script,image", k));
                net.push(format!("/adfamily{}/x3$image,script", k));
                if r.pct(50) {
                    net.push(format!("/adfamily{}/x2$image,script", k));
                }
            }
        }
        let mut all = net.clone();
        all.extend(cos.iter().cloned());
        let optimize = r.pct(60);
        let debug = r.pct(50);
        let a = ser_hex(&all, optimize, debug);
        let b = ser_hex(&all, optimize, debug);
        let desc = json!({"rules": all, "optimize": optimize, "debug": debug});
        if a.is_none() {
            out.fail("serialize-failed", None, desc.clone());
            continue;
        }
        if a != b {
            out.fail("two-builds-in-one-process-serialize-differently", None, desc.clone());
        }
        // fresh processes (fresh hash seeds)
        if k % 4 == 0 {
            let path = format!("{}/c09_rules_{}.json", out.dir, k);
            std::fs::write(&path, serde_json::to_string(&json!({"rules": all, "optimize": optimize, "debug": debug})).unwrap()).unwrap();
            for _ in 0..2 {
                let o = std::process::Command::new(&exe).args(["SER", &path]).output();
                match o {
                    Ok(o) if o.status.success() => {
                        let h = String::from_utf8_lossy(&o.stdout).trim().to_string();
                        if Some(h) != a {
                            out.fail("another-process-serializes-differently", None, desc.clone());
                        }
                        out.bump("fresh_process_serializations");
                    }
                    _ => out.fail("child-serialization-failed", None, desc.clone()),
                }
            }
            let _ = std::fs::remove_file(&path);
        }
        // reload fixpoint
        let bytes: Vec<u8> = {
            let h = a.clone().unwrap();
            (0..h.len() / 2).map(|i| u8::from_str_radix(&h[2 * i..2 * i + 2], 16).unwrap()).collect()
        };
        let mut e2 = Engine::new(r.pct(50));
        if e2.deserialize(&bytes).is_ok() {
            match e2.serialize_raw() {
                Ok(b2) if b2 == bytes => {}
                Ok(_) => out.fail("reserialization-after-reload-differs", None, desc.clone()),
                Err(_) => out.fail("reserialize-failed", None, desc.clone()),
            }
        } else {
            out.fail("deserialize-of-own-serialization-failed", None, desc.clone());
        }
        // several lists with different permissions in one engine (the same rule may come from two of them)
        if r.pct(40) && !cos.is_empty() {
            let build = |perms: &[u8]| -> Option<Vec<u8>> {
                let mut fs = FilterSet::new(debug);
                fs.add_filters(&net, ParseOptions::default());
                for p in perms {
                    fs.add_filters(&cos, ParseOptions { permissions: PermissionMask::from_bits(*p), ..Default::default() });
                }
                Engine::from_filter_set(fs, optimize).serialize_raw().ok()
            };
            let perms: Vec<u8> = match r.below(3) { 0 => vec![0, 1], 1 => vec![1, 2, 0], _ => vec![3, 3] };
            let mdesc = json!({"network": net, "cosmetic_lists": cos, "permissions": perms, "optimize": optimize, "debug": debug});
            match (build(&perms), build(&perms)) {
                (Some(x), Some(y)) => {
                    if x != y {
                        out.fail("two-builds-in-one-process-serialize-differently", None, mdesc.clone());
                    }
                    let mut e3 = Engine::new(true);
                    if e3.deserialize(&x).is_ok() {
                        match e3.serialize_raw() {
                            Ok(b3) if b3 == x => {}
                            Ok(_) => out.fail("reserialization-after-reload-differs", None, mdesc.clone()),
                            Err(_) => out.fail("reserialize-failed", None, mdesc.clone()),
                        }
                    } else {
                        out.fail("deserialize-of-own-serialization-failed", None, mdesc.clone());
                    }
                    out.bump("multi_list_engines");
                }
                _ => out.fail("serialize-failed", None, mdesc.clone()),
            }
        }
        // engines with tags switched on: the buffer is a function of the rules and the tags now enabled, however they came to be
        // enabled (tagged rules of different tags share their first token here, so a kept rule's bucket depends on which other
        // tagged rules were counted when it was placed)
        {
            let w: &str = r.pick(&["shared", "common", "zone"]);
            let mut tagged: Vec<String> = net.clone();
            tagged.push(format!("-{}-alpha-$tag=t1", w));
            tagged.push(format!("-{}-beta-$tag=t2", w));
            tagged.push(format!("-{}-delta-$tag=t2", w));
            if r.pct(50) {
                tagged.push(format!("-{}-gamma-$tag=t3,script", w));
                tagged.push(format!("-{}-alpha-second$tag=t1", w));
            }
            let (keep, dropt): (&str, &str) = if r.pct(70) { ("t1", "t2") } else { ("t2", "t1") };
            let mk = || Engine::from_rules_parametrised(&tagged, Default::default(), debug, optimize);
            let mut e_hist = mk();
            match r.below(3) {
                0 => e_hist.enable_tags(&[keep, dropt]),
                1 => {
                    e_hist.use_tags(&[dropt]);
                    e_hist.enable_tags(&[keep]);
                }
                _ => e_hist.use_tags(&[dropt, keep, "t3"]),
            }
            e_hist.disable_tags(&[dropt, "t3"]);
            let mut e_direct = mk();
            e_direct.enable_tags(&[keep]);
            let tdesc = json!({"rules": tagged, "optimize": optimize, "debug": debug, "kept_tag": keep, "tag_switched_on_and_off_again": dropt});
            match (e_hist.serialize_raw(), e_direct.serialize_raw()) {
                (Ok(x), Ok(y)) => {
                    if x != y {
                        out.fail("same-rules-same-tags-serialize-differently", None, tdesc.clone());
                    }
                    let mut e4 = Engine::new(true);
                    e4.enable_tags(&[keep]);
                    if e4.deserialize(&x).is_ok() {
                        match e4.serialize_raw() {
                            Ok(b4) if b4 == x => {}
                            Ok(_) => out.fail("reserialization-after-reload-differs", None, tdesc.clone()),
                            Err(_) => out.fail("reserialize-failed", None, tdesc.clone()),
                        }
                    } else {
                        out.fail("deserialize-of-own-serialization-failed", None, tdesc.clone());
                    }
                    out.bump("tag_history_engines");
                }
                _ => out.fail("serialize-failed", None, tdesc.clone()),
            }
        }
        out.oracle_case(&format!("{}", desc), &json!({"rules": all.len(), "bytes": bytes.len(), "optimize": optimize}), bytes.len() > 200);
        out.bump("lists");
        out.add("serialized_bytes", bytes.len() as u64);
    }
}

pub fn ser_child(path: &str) {
    let d: serde_json::Value = serde_json::from_str(&std::fs::read_to_string(path).unwrap()).unwrap();
    let rules: Vec<String> = d["rules"].as_array().unwrap().iter().map(|x| x.as_str().unwrap().to_string()).collect();
    match ser_hex(&rules, d["optimize"].as_bool().unwrap(), d["debug"].as_bool().unwrap()) {
        Some(h) => println!("{}", h),
        None => std::process::exit(3),
    }
}

// ---------------------------------------------------------------------------------------------- C10
fn small_lists() -> Vec<Vec<String>> {
    vec![
        vec!["||ads.example.com^".into(), "@@||ads.example.com/ok$script".into(), "/banner/*.gif$image,third-party".into()],
        vec!["a$script".into(), "/x^*y$tag=t1".into(), "||cdn.test^$csp=script-src 'none'".into(), "*$removeparam=utm".into(), "||r.test^$redirect=a.js".into()],
        vec!["example.com##.ad".into(), "example.com#@#.ad2".into(), "example.com##+js(f1, x)".into(), "##.generic".into(), "###id.compound".into(), "example.com##.s:style(color: red)".into()],
        vec!["||h.test^$important,tag=t1".into(), "||tagged.host.test^$tag=t1".into(), "||tagged.path.test/some/path$tag=t1,script".into(), "/re[0-9]+/$script".into(), "|https://$domain=a.com|~b.a.com".into(), "@@||x.test^$generichide".into()],
        // fusable rules of one tag in one bucket (the optimiser runs over decoded rules when tags are applied)
        vec!["/ads/a$tag=t1".into(), "/ads/b$tag=t1".into(), "/ads/c$tag=t1".into(), "/ads/d$tag=t2".into(), "/ads/e$tag=t2".into(), "/ads/f".into(), "/ads/g".into()],
    ]
}

fn battery(e: &Engine) -> String {
    let mut out = String::new();
    for (u, s, t) in [
        ("https://ads.example.com/banner/x.gif", "https://site.test/", "image"),
        ("https://cdn.test/a?utm=1", "https://cdn.test/", "document"),
        ("https://h.test/re12", "https://a.com/", "script"),
        ("https://r.test/x/a", "", "script"),
        ("wss://x.test/xay", "https://x.test/", "websocket"),
    ] {
        if let Ok(q) = adblock::request::Request::new(u, s, t) {
            let v = e.check_network_request(&q);
            out.push_str(&show_verdict(&v));
            out.push('|');
            out.push_str(&show_csp(&e.get_csp_directives(&q)));
            out.push('|');
        }
    }
    for u in ["https://example.com/", "https://x.test/p", "https://sub.example.com/"] {
        let c = e.url_cosmetic_resources(u);
        out.push_str(&format!("{}|{}|{}|{}|", sorted(&c.hide_selectors).join(","), sorted(&c.procedural_actions).join(","), sorted(&c.exceptions).join(","), c.injected_script.len()));
    }
    let l = e.hidden_class_id_selectors(&["generic", "ad"], &["id"], &HashSet::new());
    out.push_str(&l.join(","));
    out
}

/// One corrupted buffer: load into an engine with state; an error must leave the engine unchanged, a
/// success must answer the battery and re-serialize. Returns a failure description.
fn one_fault(base: &Engine, base_battery: &str, resources: &[adblock::resources::Resource], lines: &[String], bytes: &[u8]) -> Option<String> {
    let mut e = Engine::from_rules_parametrised(lines, Default::default(), true, true);
    e.use_resources(resources.to_vec());
    e.use_tags(&["t1"]);
    let _ = base;
    let r = guarded(std::panic::AssertUnwindSafe(|| e.deserialize(bytes)));
    match r {
        Err(p) => Some(format!("deserialize panicked: {}", p)),
        Ok(Err(_)) => {
            let after = guarded(std::panic::AssertUnwindSafe(|| battery(&e)));
            match after {
                Ok(b) if b == base_battery && e.tag_exists("t1") => None,
                Ok(_) => Some("engine changed although deserialize returned an error".to_string()),
                Err(p) => Some(format!("query panicked after failed load: {}", p)),
            }
        }
        Ok(Ok(())) => {
            if !e.tag_exists("t1") {
                return Some("enabled tags lost by a successful load".to_string());
            }
            match guarded(std::panic::AssertUnwindSafe(|| {
                let b = battery(&e);
                let s = e.serialize_raw().map(|x| x.len()).unwrap_or(0);
                (b, s)
            })) {
                Ok(_) => None,
                Err(p) => Some(format!("query / re-serialization panicked after successful load of corrupt data: {}", p)),
            }
        }
    }
}

pub fn c10_child(seed: u64, n: usize, dir: &str, tier: &str) {
    use std::io::Write;
    let mut r = Rng::new(seed);
    let resources: Vec<_> = {
        let mut v = std_resources();
        v.push(mk_resource("f1.js", &[], adblock::resources::ResourceType::Mime(adblock::resources::MimeType::ApplicationJavascript), "function f1() { BODY }", 0));
        v
    };
    let mut progress = std::fs::File::create(format!("{}/c10_progress.txt", dir)).unwrap();
    let mut failures = vec![];
    let mut counts = serde_json::Map::new();
    let mut bump = |k: &str, d: u64, counts: &mut serde_json::Map<String, serde_json::Value>| {
        let e = counts.entry(k.to_string()).or_insert(json!(0));
        *e = json!(e.as_u64().unwrap() + d);
    };
    let mut total = 0u64;
    for (li, lines) in small_lists().iter().enumerate() {
        let mut base = Engine::from_rules_parametrised(lines, Default::default(), true, true);
        base.use_resources(resources.clone());
        base.use_tags(&["t1"]);
        let bb = battery(&base);
        let good = base.serialize_raw().unwrap();
        let mut variants: Vec<(String, Vec<u8>)> = vec![];
        // header variants and arbitrary byte strings
        variants.push(("empty".into(), vec![]));
        variants.push(("magic only".into(), good[..4].to_vec()));
        variants.push(("wrong version".into(), { let mut v = good.clone(); v[4] = 7; v }));
        variants.push(("gzip header".into(), vec![31, 139, 8, 0, 0, 0, 0, 0, 0, 255, 1, 2, 3]));
        variants.push(("magic + version only".into(), good[..5].to_vec()));
        // every prefix
        let step_p = if tier == "quick" { 7 } else { 1 };
        for k in (0..good.len()).step_by(step_p) {
            variants.push((format!("prefix {}", k), good[..k].to_vec()));
        }
        // every single-bit flip (quick: a seeded stride)
        let stride = if tier == "quick" { 5 } else { 1 };
        let off = (seed as usize) % stride;
        for i in (off..good.len() * 8).step_by(stride) {
            let mut v = good.clone();
            v[i / 8] ^= 1 << (i % 8);
            variants.push((format!("bit flip {}", i), v));
        }
        // substitutions at structural offsets: every msgpack length / type marker
        // length / type markers, and the smallest well-formed values of every kind (nil, booleans, the empty
        // array / map / string, a one-element array, zero): data that still decodes but breaks an invariant the
        // parser guarantees (sorted non-empty hash lists, `/…/` around complete regexes, …)
        let markers: [u8; 21] = [0xdb, 0xda, 0xd9, 0xc6, 0xc5, 0xc4, 0xdd, 0xdc, 0xdf, 0xde, 0xc1, 0x9f, 0x90, 0x80, 0xa0, 0xc0, 0xc2, 0xc3, 0x00, 0x91, 0xa1];
        for (i, b) in good.iter().enumerate() {
            let structural = (0x90..=0x9f).contains(b) || (0x80..=0x8f).contains(b) || (0xa0..=0xbf).contains(b) || *b >= 0xc0 && *b <= 0xdf;
            if structural && (tier != "quick" || i % 3 == (seed as usize) % 3) {
                for m in markers {
                    let mut v = good.clone();
                    v[i] = m;
                    variants.push((format!("marker {:#x} at {}", m, i), v));
                }
            }
        }
        // well-formed strings with hostile content: the first / last bytes of every string payload are
        // overwritten by a 2-, 3- and 4-byte UTF-8 character (the buffer still decodes; code that slices
        // rule text at byte offsets must cope)
        for (i, b) in good.iter().enumerate() {
            let (start, len) = if (0xa2..=0xbf).contains(b) {
                (i + 1, (*b - 0xa0) as usize)
            } else if *b == 0xd9 && i + 1 < good.len() {
                (i + 2, good[i + 1] as usize)
            } else {
                continue;
            };
            if len < 2 || start + len > good.len() || std::str::from_utf8(&good[start..start + len]).is_err() {
                continue;
            }
            if tier == "quick" && len < 4 && i % 2 == (seed as usize) % 2 {
                continue;
            }
            for ch in ["\u{e9}", "\u{20ac}", "\u{1f600}"] {
                let cb = ch.as_bytes();
                if cb.len() > len {
                    continue;
                }
                for place in 0..3 {
                    let mut v = good.clone();
                    let pos = match place { 0 => start, 1 => start + len - cb.len(), _ => start + (len - cb.len()) / 2 };
                    if place == 2 && (len < cb.len() + 4 || !good[start..start + len].is_ascii()) {
                        continue;
                    }
                    v[pos..pos + cb.len()].copy_from_slice(cb);
                    variants.push((format!("utf8 {}-byte char at {} of string at {}", cb.len(), ["start", "end", "middle"][place], i), v));
                }
            }
        }
        // strings that carry a document of their own (the JSON of a procedural / action filter, a resource
        // argument list, …) replaced by other well-formed documents, the length marker re-encoded: the buffer
        // decodes, and whatever reads the inner document finds a shape the rule parser never produces
        for (i, b) in good.iter().enumerate() {
            let (hdr, len) = if (0xa2..=0xbf).contains(b) {
                (1usize, (*b - 0xa0) as usize)
            } else if *b == 0xd9 && i + 1 < good.len() {
                (2, good[i + 1] as usize)
            } else if *b == 0xda && i + 2 < good.len() {
                (3, ((good[i + 1] as usize) << 8) | good[i + 2] as usize)
            } else {
                continue;
            };
            let start = i + hdr;
            if start + len > good.len() {
                continue;
            }
            let payload = match std::str::from_utf8(&good[start..start + len]) { Ok(p) => p, Err(_) => continue };
            // the whole string replaced by nil and by the empty string (optional fields that the parser fills for
            // all rules of a list or for none: here one rule loses its field)
            {
                for repl in [0xc0u8, 0xa0u8] {
                    let mut v = good[..i].to_vec();
                    v.push(repl);
                    v.extend_from_slice(&good[start + len..]);
                    variants.push((format!("string at {} replaced by {:#x}", i, repl), v));
                }
            }
            if !(payload.starts_with('{') || payload.starts_with('[')) {
                continue;
            }
            for doc in ["{\"selector\":[]}", "{}", "[]", "null", "{\"selector\":[],\"action\":{\"type\":\"remove\"}}", "{\"selector\":[{\"type\":\"css-selector\",\"arg\":\"\"}]}",
                        "{\"selector\":[{\"type\":\"has-text\",\"arg\":\"x\"},{\"type\":\"css-selector\",\"arg\":\".y\"}]}", "{\"selector\":[{\"type\":\"css-selector\",\"arg\":\".a\"},{\"type\":\"css-selector\",\"arg\":\".b\"}],\"action\":{\"type\":\"style\",\"arg\":\"\"}}",
                        "{\"selector\":null}", "{\"action\":{\"type\":\"style\"}}"] {
                let d = doc.as_bytes();
                let mut v = good[..i].to_vec();
                if d.len() < 32 {
                    v.push(0xa0 | d.len() as u8);
                } else {
                    v.push(0xd9);
                    v.push(d.len() as u8);
                }
                v.extend_from_slice(d);
                v.extend_from_slice(&good[start + len..]);
                variants.push((format!("inner document {} in the string at {}", doc, i), v));
            }
        }
        // random multi-byte corruptions
        for k in 0..n {
            let mut v = good.clone();
            for _ in 0..1 + r.below(6) {
                let i = 5 + r.below(v.len() - 5);
                match r.below(4) {
                    0 => v[i] = r.next() as u8,
                    1 => { v.remove(i); }
                    2 => v.insert(i, r.next() as u8),
                    _ => { let j = 5 + r.below(v.len() - 5); v.swap(i, j); }
                }
            }
            variants.push((format!("random corruption {}", k), v));
        }
        for (name, v) in variants {
            total += 1;
            writeln!(progress, "{}\t{}\t{}", li, name, hex_bytes(&v)).ok();
            progress.flush().ok();
            let kind = name.split(' ').next().unwrap().to_string();
            bump(&format!("variants:{}", kind), 1, &mut counts);
            if let Some(f) = one_fault(&base, &bb, &resources, lines, &v) {
                failures.push(json!({"kind": "hostile-data", "class": null, "case": {"list": lines, "variant": name, "what": f, "bytes_hex": if v.len() < 1200 { hex_bytes(&v) } else { String::new() }}}));
            }
        }
    }
    counts.insert("total_variants".into(), json!(total));
    std::fs::write(format!("{}/c10_child.json", dir), serde_json::to_string(&json!({"failures": failures, "counts": counts})).unwrap()).unwrap();
}

pub fn run_c10(seed: u64, n: usize, out: &mut Out, tier: &str) {
    // (1) header dispatch against the model
    let good = Engine::from_rules_parametrised(&["||a.com^".to_string()], Default::default(), true, true).serialize_raw().unwrap();
    let mut r = Rng::new(seed);
    let mut heads: Vec<Vec<u8>> = vec![vec![], good[..1].to_vec(), good[..3].to_vec(), good[..4].to_vec(), good[..5].to_vec(), vec![31, 139, 8, 0, 0, 0, 0, 0, 0, 255], vec![31, 139, 8, 0, 0, 0, 0, 0, 0, 255, 9, 9], vec![31, 139, 8, 0], good.clone()];
    for v in 0..=255u8 {
        let mut h = good[..4].to_vec();
        h.push(v);
        heads.push(h);
    }
    for _ in 0..n {
        let k = r.below(14);
        heads.push((0..k).map(|_| r.next() as u8).collect());
    }
    for h in heads {
        let mut e = Engine::new(true);
        let res = guarded(std::panic::AssertUnwindSafe(|| e.deserialize(&h)));
        let imp = match res {
            Err(p) => format!("PANIC:{}", p),
            Ok(Ok(())) => "v0".to_string(),
            Ok(Err(err)) => {
                let d = format!("{:?}", err);
                if d.starts_with("NoHeaderFound") { "no-header".into() }
                else if d.starts_with("LegacyFormatNoLongerSupported") { "legacy-gzip".into() }
                else if d.starts_with("UnsupportedFormatVersion(") { format!("version-{}", d.trim_start_matches("UnsupportedFormatVersion(").trim_end_matches(')')) }
                else { "v0".into() } // the decoder was reached and rejected the body
            }
        };
        if imp.starts_with("PANIC") {
            out.fail("deserialize-panicked", None, json!({"bytes_hex": hex_bytes(&h), "panic": imp}));
        }
        out.case(&format!("disp\t{}", hex_bytes(&h)), &imp, json!({"bytes_hex": hex_bytes(&h), "outcome": imp}), h.len() >= 4);
    }
    // (2) fault enumeration in a child process under an address-space ceiling and a time limit
    let exe = std::env::current_exe().unwrap();
    let cmd = format!("ulimit -v 3000000; exec {} C10CHILD {} {} {} {}", exe.display(), seed, n, out.dir, tier);
    let t0 = std::time::Instant::now();
    let status = std::process::Command::new("timeout").args([if tier == "quick" { "150" } else { "3000" }, "bash", "-c", &cmd]).status();
    let ok = matches!(&status, Ok(s) if s.success());
    if !ok {
        // the child died (abort / out of memory / time limit): the last case in the progress file is the culprit
        let prog = std::fs::read_to_string(format!("{}/c10_progress.txt", out.dir)).unwrap_or_default();
        let last = prog.lines().last().unwrap_or("").to_string();
        let mut it = last.split('\t');
        let li = it.next().unwrap_or("");
        let name = it.next().unwrap_or("");
        let hexb = it.next().unwrap_or("");
        out.fail("child-died-while-loading-hostile-data (abort, unbounded allocation or hang)", None, json!({"list": li, "variant": name, "bytes_hex": hexb, "status": format!("{:?}", status), "seconds": t0.elapsed().as_secs()}));
    } else if let Ok(s) = std::fs::read_to_string(format!("{}/c10_child.json", out.dir)) {
        let d: serde_json::Value = serde_json::from_str(&s).unwrap();
        for f in d["failures"].as_array().unwrap() {
            out.fail("hostile-data", None, f["case"].clone());
        }
        if let Some(c) = d["counts"].as_object() {
            for (k, v) in c {
                out.add(k, v.as_u64().unwrap_or(0));
            }
        }
        let total = d["counts"]["total_variants"].as_u64().unwrap_or(0);
        out.add("oracle_only_cases", total);
        if tier != "quick" {
            out.add("exhaustive", 1);
        }
    }
    let _ = std::fs::remove_file(format!("{}/c10_progress.txt", out.dir));
}
