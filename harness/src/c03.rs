//! C03: option semantics — exhaustive over type alias x party x scheme x source relation for every
//! single option, every pair (quick: seeded sample of pairs) and triples (thorough), random domain lists.
use crate::net::*;
use crate::util::*;
use serde_json::json;

const TYPES: &[&str] = &["beacon", "csp_report", "document", "main_frame", "font", "image", "imageset", "media", "object", "object_subrequest", "ping", "script", "stylesheet", "sub_frame", "subdocument", "websocket", "xhr", "xmlhttprequest", "other"];
const ATOMS: &[&str] = &["script", "~script", "image", "~image", "media", "~media", "object", "~object", "object-subrequest", "other", "~other", "ping", "~ping", "beacon", "stylesheet", "css", "~stylesheet", "subdocument", "frame", "~subdocument", "xmlhttprequest", "xhr", "~xhr", "websocket", "~websocket", "font", "~font", "document", "doc",
    "third-party", "3p", "~third-party", "first-party", "1p", "~first-party", "important", "badfilter",
    "domain=a.com", "domain=~a.com", "domain=a.com|~sub.a.com", "from=b.org|a.com", "domain=~x.a.com|~b.org", "domain=com",
    // regex entries of a domain list are not supported and are dropped, negated ones too; a list of nothing else is an error
    "domain=~/evil\\.com/", "domain=/re/|a.com", "domain=~/x/|~a.com", "domain=/only/", "from=~/a/|~/b/"];

fn requests() -> Vec<Req> {
    let mut v = vec![];
    for ty in TYPES {
        for (url, src) in [
            ("https://a.com/x", "https://a.com/"),
            ("https://a.com/x", "https://sub.a.com/p"),
            ("https://a.com/x", "https://b.org/"),
            ("https://a.com/x", "https://x.sub.a.com/"),
            ("https://a.com/x", ""),
            ("http://a.com/x", "https://b.org/"),
            ("http://a.com/x", "http://a.com/"),
            ("ws://a.com/x", "https://a.com/"),
            ("wss://a.com/x", "https://other.net/"),
            ("https://a.com/x", "https://nota.com/"),
            // deep initiators: every parent domain, however many labels down, is covered by domain=
            ("https://a.com/x", "https://p.q.r.x.sub.a.com/"),
            ("https://a.com/x", "https://k.l.m.n.o.b.org/"),
            // hosts that are no domain names (addresses, labels with an underscore): each is a site of its own
            ("http://10.0.1.10/x", "http://192.168.1.10/"),
            ("http://10.0.1.10/x", "http://10.0.1.10/p"),
            ("https://img_cdn.shop.co.uk/x", "https://my_blog.news.co.uk/"),
        ] {
            if let Some(q) = make_req(url, src, ty) {
                v.push(q);
            }
        }
    }
    v
}

/// (url, source, third party?) — the party of the fixed requests, stated independently of the crate's domain resolver
const PARTY: &[(&str, &str, bool)] = &[
    ("https://a.com/x", "https://a.com/", false), ("https://a.com/x", "https://sub.a.com/p", false), ("https://a.com/x", "https://b.org/", true),
    ("https://a.com/x", "https://x.sub.a.com/", false), ("https://a.com/x", "", true), ("https://a.com/x", "https://nota.com/", true),
    ("https://a.com/x", "https://p.q.r.x.sub.a.com/", false), ("https://a.com/x", "https://k.l.m.n.o.b.org/", true),
    ("http://10.0.1.10/x", "http://192.168.1.10/", true), ("http://10.0.1.10/x", "http://10.0.1.10/p", false), ("http://10.0.1.10/x", "http://10.0.1.11/", true),
    ("https://img_cdn.shop.co.uk/x", "https://my_blog.news.co.uk/", true), ("https://shop.co.uk/x", "https://news.co.uk/", true),
    ("https://a.shop.co.uk/x", "https://b.shop.co.uk/", false), ("http://[::1]/x", "http://[::2]/", true), ("https://localhost/x", "https://intranet/", true),
];

pub fn run(seed: u64, n: usize, out: &mut Out, tier: &str) {
    let mut r = Rng::new(seed);
    crate::c12::type_table_oracle(out);
    for (u, s, third) in PARTY {
        for ty in ["script", "image"] {
            if let Ok(q) = adblock::request::Request::new(u, s, ty) {
                if q.is_third_party != *third {
                    out.fail("party-of-a-fixed-request", None, json!({"url": u, "source": s, "is_third_party": q.is_third_party, "expected": third}));
                }
                // and the party options applied to it, through one-rule engines
                for (rule, want) in [("*$third-party", *third), ("*$~third-party", !*third), ("*$3p,script", *third && ty == "script"), ("*$1p", !*third)] {
                    let e = adblock::Engine::from_rules_parametrised(&[rule.to_string()], Default::default(), true, false);
                    if e.check_network_request(&q).matched != want {
                        out.fail("party-option-on-a-fixed-request", None, json!({"rule": rule, "url": u, "source": s, "type": ty, "expected_match": want}));
                    }
                }
                out.bump("fixed_party_requests");
            }
        }
    }
    let reqs = requests();
    let dumps: Vec<String> = reqs.iter().map(|q| q.dump.clone()).collect();
    let mut optsets: Vec<String> = vec![String::new()];
    for a in ATOMS {
        optsets.push(a.to_string());
    }
    if tier == "quick" {
        for _ in 0..n {
            let a = r.pick(ATOMS);
            let b = r.pick(ATOMS);
            optsets.push(format!("{},{}", a, b));
            if r.pct(30) {
                optsets.push(format!("{},{},{}", a, b, r.pick(ATOMS)));
            }
        }
    } else {
        for a in ATOMS {
            for b in ATOMS {
                optsets.push(format!("{},{}", a, b));
            }
        }
        for _ in 0..n {
            optsets.push(format!("{},{},{}", r.pick(ATOMS), r.pick(ATOMS), r.pick(ATOMS)));
        }
        out.add("exhaustive", 1);
    }
    // random domain lists
    let doms = ["a.com", "sub.a.com", "x.sub.a.com", "b.org", "com", "nota.com", "other.net"];
    for _ in 0..n / 2 {
        let k = 1 + r.below(4);
        let ds: Vec<String> = (0..k).map(|_| format!("{}{}", if r.pct(40) { "~" } else { "" }, r.pick(&doms))).collect();
        let mut o = format!("domain={}", ds.join("|"));
        if r.pct(40) {
            o = format!("{},{}", o, r.pick(ATOMS));
        }
        optsets.push(o);
    }
    let shapes = ["", "||a.com^", "@@", "@@||a.com^", "|https://", "|http://", "|ws://", "/x", "||a.com/x", "|http*://", "a.com"];
    for o in optsets {
        for shape in shapes {
            if tier == "quick" && !shape.is_empty() && shape != "||a.com^" && r.pct(70) {
                continue;
            }
            let line = if o.is_empty() { shape.to_string() } else { format!("{}${}", shape, o) };
            if line.is_empty() {
                continue;
            }
            let f = match adblock::filters::network::NetworkFilter::parse(&line, true, Default::default()) {
                Ok(f) => f,
                Err(_) => {
                    out.bump("rejected_option_sets");
                    out.case(&format!("omx\t{}\t{}", hex(&line), dumps.join("\t")), "R", json!({"rule": line, "rejected": true}), false);
                    continue;
                }
            };
            // requests with unsupported schemes are never matched (engine level)
            let e = adblock::Engine::from_rules_parametrised(&[line.clone()], Default::default(), true, true);
            for (u, ty) in [("ftp://a.com/x", "script"), ("ftp://a.com/x", "websocket"), ("data:text/plain,x", "image"), ("chrome-extension://a.com/x", "websocket"), ("file:///a.com/x", "document"), ("FTP://a.com/x", "websocket"), ("gopher://a.com/x", "xhr")] {
                if let Ok(q) = adblock::request::Request::new(u, "https://a.com/", ty) {
                    let v = e.check_network_request(&q);
                    if v.matched || v.exception.is_some() || v.redirect.is_some() || v.rewritten_url.is_some() {
                        out.fail("unsupported-scheme-matched", None, json!({"rule": line, "url": u}));
                    }
                    out.bump("unsupported_scheme_probes");
                }
            }
            let mut pr = PRule { line: line.clone(), f: Box::new(f), rm: Default::default() };
            let imp: String = reqs.iter().map(|q| if pr.matches(&q.req) { '1' } else { '0' }).collect();
            // the spelling of the scheme (`HTTPS://`, `Ws://`) is not an option: the rule applies to the
            // request exactly as it applies to the lower-case spelling, per rule and through the engine
            for q in reqs.iter().step_by(7) {
                let i = match q.url.find("://") { Some(i) => i, None => continue };
                let twin_url = format!("{}{}", q.url[..i].to_uppercase(), &q.url[i..]);
                if let (Ok(t), Ok(o)) = (adblock::request::Request::new(&twin_url, &q.src, &q.ty), adblock::request::Request::new(&q.url, &q.src, &q.ty)) {
                    let (a, b) = (pr.matches(&t), pr.matches(&o));
                    let (va, vb) = (e.check_network_request(&t), e.check_network_request(&o));
                    if a != b || va.matched != vb.matched || va.exception.is_some() != vb.exception.is_some() {
                        out.fail("scheme-spelling-changes-the-answer", None, json!({"rule": line, "url": twin_url, "lower_case_url": q.url, "source": q.src, "type": q.ty,
                            "rule_applies": a, "rule_applies_lower": b, "engine_matched": va.matched, "engine_matched_lower": vb.matched}));
                    }
                    out.bump("scheme_spelling_probes");
                }
            }
            // an engine saved and loaded again applies the options exactly as before (everything a loaded rule
            // carries that is derived from its option lists is as the parser left it)
            if let Ok(bytes) = e.serialize_raw() {
                let mut e2 = adblock::Engine::default();
                if e2.deserialize(&bytes).is_ok() {
                    for q in reqs.iter() {
                        let (a, b) = (e.check_network_request(&q.req), e2.check_network_request(&q.req));
                        if a.matched != b.matched || a.exception.is_some() != b.exception.is_some() || a.important != b.important {
                            out.fail("reloaded-engine-applies-options-differently", None, json!({"rule": line, "url": q.url, "source": q.src, "type": q.ty,
                                "matched": a.matched, "matched_after_reload": b.matched, "exception": a.exception, "exception_after_reload": b.exception}));
                        }
                    }
                    out.add("reloaded_engine_probes", reqs.len() as u64);
                }
            }
            let hits = imp.matches('1').count();
            out.add("rule_request_pairs", reqs.len() as u64);
            out.add("pairs_applying", hits as u64);
            out.case(&format!("omx\t{}\t{}", hex(&line), dumps.join("\t")), &imp, json!({"rule": line, "requests": reqs.len(), "applies_to": hits}), hits > 0 && hits < reqs.len());
        }
    }
    // options under optimisation: two rules of one bucket that differ in at most their options must keep their own
    // options when the optimiser looks at them together (an option is part of what makes two rules fusable)
    let pool = ["", "match-case", "script", "image", "third-party", "~third-party", "important", "domain=a.com", "xhr,third-party", "match-case,script", "~image"];
    for _ in 0..n {
        let mut o1: String = r.pick(&pool).to_string();
        let mut o2: String = r.pick(&pool).to_string();
        if r.pct(50) {
            // the two rules differ in exactly one option
            let base = r.pick(&["", "script", "third-party", "image", "important"]).to_string();
            let extra = *r.pick(&[&"match-case", &"match-case", &"~third-party", &"xhr", &"important", &"domain=a.com"]);
            o1 = if base.is_empty() { extra.to_string() } else { format!("{},{}", extra, base) };
            o2 = base;
            if r.pct(50) {
                std::mem::swap(&mut o1, &mut o2);
            }
        }
        let (o1, o2) = (o1.as_str(), o2.as_str());
        let mk = |body: &str, o: &str| if o.is_empty() { body.to_string() } else { format!("{}${}", body, o) };
        let lines: Vec<String> = if r.pct(60) {
            vec![mk("/paira[0-9]+/", o1), mk("/PAIRB[0-9]+/", o2), mk("/pairc[0-9]+/", o1)]
        } else {
            vec![mk("/pairzone/one", o1.trim_start_matches("match-case,").trim_start_matches("match-case")), mk("/pairzone/two", o2.trim_start_matches("match-case,").trim_start_matches("match-case")), "/pairzone/three".to_string()]
        };
        let lines: Vec<String> = lines.into_iter().map(|l| l.trim_end_matches('$').to_string()).collect();
        let e_opt = adblock::Engine::from_rules_parametrised(&lines, Default::default(), true, true);
        let e_un = adblock::Engine::from_rules_parametrised(&lines, Default::default(), true, false);
        for u in ["https://a.com/paira1", "https://a.com/PAIRA1", "https://a.com/pairb2", "https://a.com/PAIRB2", "https://a.com/pairc3", "https://a.com/PairC3",
                  "https://a.com/pairzone/one", "https://a.com/pairzone/two", "https://a.com/PAIRZONE/TWO", "https://a.com/pairzone/three"] {
            for (src, ty) in [("https://a.com/", "script"), ("https://b.org/", "image"), ("https://b.org/", "script"), ("https://b.org/", "xhr")] {
                if let Ok(q) = adblock::request::Request::new(u, src, ty) {
                    let (a, b) = (e_opt.check_network_request(&q), e_un.check_network_request(&q));
                    if a.matched != b.matched || a.important != b.important || a.exception.is_some() != b.exception.is_some() {
                        out.fail("optimised-engine-applies-other-options", None, json!({"rules": lines, "url": u, "source": src, "type": ty, "optimised": a.matched, "not_optimised": b.matched}));
                    }
                    out.bump("optimised_pair_probes");
                }
            }
        }
    }

}
