//! C20: Safari content-blocking export (`FilterSet::into_content_blocking`, the per-rule conversions).
use crate::c11::{option_soup, pattern_soup};
use crate::gen;
use crate::net::*;
use crate::util::*;
use adblock::content_blocking::{CbLoadType, CbResourceType, CbRule, CbRuleEquivalent, CbType};
use adblock::filters::cosmetic::{CosmeticFilter, CosmeticFilterMask};
use adblock::filters::network::NetworkFilter;
use adblock::lists::{parse_filter, FilterSet, ParsedFilter};
use serde_json::json;
use std::convert::TryInto;

fn opt_list(o: &Option<Vec<String>>) -> String {
    match o {
        None => "-".into(),
        Some(v) => format!("+{}", v.iter().map(|s| hex(s)).collect::<Vec<_>>().join(",")),
    }
}

fn rt_name(t: &CbResourceType) -> &'static str {
    match t {
        CbResourceType::Document => "Document",
        CbResourceType::Image => "Image",
        CbResourceType::StyleSheet => "StyleSheet",
        CbResourceType::Script => "Script",
        CbResourceType::Font => "Font",
        CbResourceType::Raw => "Raw",
        CbResourceType::SvgDocument => "SvgDocument",
        CbResourceType::Media => "Media",
        CbResourceType::Popup => "Popup",
    }
}

/// `typ;selector;urlFilter;caseSensitive;ifDomain;unlessDomain;resourceTypes;loadTypes`
pub fn show_rule(r: &CbRule) -> String {
    let typ = match r.action.typ {
        CbType::Block => "block",
        CbType::BlockCookies => "block-cookies",
        CbType::CssDisplayNone => "css",
        CbType::IgnorePreviousRules => "ignore",
        CbType::MakeHttps => "make-https",
    };
    let rts = match &r.trigger.resource_type {
        None => "-".to_string(),
        Some(s) => {
            let mut v: Vec<&str> = s.iter().map(rt_name).collect();
            v.sort();
            format!("+{}", v.join(","))
        }
    };
    let lts: Vec<&str> = r.trigger.load_type.iter().map(|l| match l { CbLoadType::FirstParty => "1p", CbLoadType::ThirdParty => "3p" }).collect();
    format!(
        "{};{};{};{};{};{};{};{}",
        typ,
        opt_hex(r.action.selector.as_deref()),
        hex(&r.trigger.url_filter),
        if r.trigger.url_filter_is_case_sensitive == Some(true) { 1 } else { 0 },
        opt_list(&r.trigger.if_domain),
        opt_list(&r.trigger.unless_domain),
        rts,
        lts.join(",")
    )
}

/// Rust copy of the model's recogniser of the regex subset Safari accepts
pub fn safari_ok(s: &str) -> bool {
    let cs: Vec<char> = s.chars().collect();
    let (mut depth, mut in_class, mut can_quant, mut ended) = (0usize, false, false, false);
    let mut i = 0;
    while i < cs.len() {
        let c = cs[i];
        if ended || !c.is_ascii() {
            return false;
        }
        if in_class {
            if c == ']' {
                in_class = false;
                can_quant = true;
            } else if c == '\\' {
                if i + 1 >= cs.len() {
                    return false;
                }
                i += 1;
            }
        } else if c == '\\' {
            if i + 1 >= cs.len() || !".+?^${}()|[]\\*/".contains(cs[i + 1]) {
                return false;
            }
            i += 1;
            can_quant = true;
        } else if c == '^' {
            if i != 0 {
                return false;
            }
            can_quant = false;
        } else if c == '$' {
            ended = true;
        } else if c == '*' || c == '+' || c == '?' {
            if !can_quant {
                return false;
            }
            can_quant = false;
        } else if c == '(' {
            depth += 1;
            can_quant = false;
        } else if c == ')' {
            if depth == 0 {
                return false;
            }
            depth -= 1;
            can_quant = true;
        } else if c == '[' {
            in_class = true;
            can_quant = false;
        } else if c == '|' || c == '{' || c == '}' {
            return false;
        } else {
            can_quant = true;
        }
        i += 1;
    }
    depth == 0 && !in_class
}

fn net_line(r: &mut Rng) -> String {
    match r.below(16) {
        0 | 1 => gen::rule(r, &gen::RuleOpts { extra: true, full_regex: true }),
        2 => {
            let c = gen::cluster(r, &gen::ALL_ON);
            c[r.below(c.len())].clone()
        }
        3 => format!("{}${}", pattern_soup(r), option_soup(r)),
        // `$` inside the pattern
        4 => format!("{}{}${}", r.pick(&["||example.com/ad$banner", "-ad$banner-", "|https://example.org/x$y|", "/a$b/c", "$$x", "a$", "||a.com^$x"]), "", r.pick(&["script", "image", "domain=a.com", "third-party", "~image", "script,domain=a.com|b.com"])),
        // domain= spellings
        5 | 6 => {
            let d = r.pick(&["domain=a.com", "domain=a.com|b.com", "domain=~a.com", "domain=~a.com|~b.com", "domain=a.com|~b.a.com", "domain=A.COM", "domain=b\u{fc}cher.example", "domain=a\u{200d}.com", "domain=\u{fffd}.com", "domain=xn--a.com", "domain=~b\u{fc}cher.example", "from=a.com", "from=~a.com", "domain=a.com|", "domain=|a.com", "domain=a.com,script", "script,domain=a.com", "domain=a.com,domain=b.com", "from=a.com,domain=b.com", "domain=a.com,from=b.com", "domain=a.com|a.com", "domain=co.uk", "domain=localhost", "domain=a.*", "domain=~", "domain=a_b.com", "domain=a b.com"]);
            let p = r.pick(&["||x.com^", "/ads/", "||x.com/?domain=foo", "/x?domain=~q|r", "/p$q?domain=~q|r", "|https://x.com/", "*", "||x.com/Path", "||x.com^*/y"]);
            format!("{}${}", p, d)
        }
        // scheme-only patterns and request-type negations
        7 => format!("{}${}", r.pick(&["|ws://", "|wss://", "|http://", "|https://", "|http*://", "ws://", "|ws://x"]), r.pick(&["~websocket", "websocket", "~script", "script", "~image,~websocket", "third-party", "~third-party", "document", "~document", "xhr,~websocket"])),
        // type combinations (document split, unsupported-only)
        8 => format!("{}${}", r.pick(&["||t.example^", "/banner/", "|https://t.example/x|"]), r.pick(&["document", "document,script", "subdocument,script", "subdocument", "sub_frame,image,font", "object", "ping,other", "object,script", "websocket", "xhr", "font,media,stylesheet,image,script,xhr,subdocument", "~script", "~object", "~subdocument", "document,~script", "popup", "all", "inline-script", "1p,script", "3p,subdocument,script", "match-case", "important", "important,script"])),
        9 => format!("@@{}", gen::rule(r, &gen::RuleOpts { extra: false, full_regex: false })),
        10 => r.pick(&["||b\u{fc}cher.example^", "/\u{e9}/", "||x.com/\u{e9}$script", "||EXAMPLE.com^", "/ADS/$match-case", "/^ads[0-9]{2}/", "/ads/$match-case", "||a.com^$csp=x", "||a.com^$redirect=a.js", "||a.com^$removeparam=x", "@@||a.com^$generichide", "||a.com^$badfilter", "||a.com^$tag=x", "a.com", "127.0.0.1 a.com", "! c", "||a.com^|", "|a|", "||*", "||a*.com^", "*$image", "*$~image", "$script", "|$script"]).to_string(),
        // an empty host text before a wildcard; literal `|` inside or at the end of a pattern
        11 => r.pick(&["||*/ads/banner.js", "||*adframe", "||*^ads^", "||*.example.com/x", "||*/x$script", "||*ads/img|", "banner.gif||", "@@||ads.example.com/track?ids=1|2||$image", "/x|y|", "a|b", "|https://a.com/p|q|", "||a.com/p|q", "/ads||", "|||", "||a.com|b^"]).to_string(),
        _ => gen::rule(r, &gen::RuleOpts { extra: false, full_regex: false }),
    }
}

fn cos_line(r: &mut Rng, scripts: &[String]) -> String {
    match r.below(8) {
        0 => r.pick(&["a.com,~b.com##.x", "a.*##.x", "~a.*##.x", "a.*,b.com##.x", "/re/##.x", "a.com,/re/##.x", ",a.com,,##.x", "~a.com##.x", "~a.com,~b.com##.x", "a.com#@#.x", "~a.com#@#.x", "##.x", "#@#.x", "b\u{fc}cher.example##.x", "a\u{200d}.com##.x", "xn--a.com,b.com##.x", "a.com##.\u{e9}", "a.com##.x:has(.y)", "a.com##.x:has-text(y)", "a.com##+js(f1)", "a.com##.x:style(a: b)", "a.com##.x:remove()", "A.COM##.X", "a.com##.x, .y", "~##.x", ".*##.x", "a.com.*##.x"]).to_string(),
        _ => crate::cosm::gen_rule(r, scripts),
    }
}

fn dump_cos(f: &CosmeticFilter, raw: &str) -> String {
    let locs = adblock::filters::cosmetic::verif_locations_before_sharp(raw).unwrap_or_default();
    let ls: Vec<String> = locs.iter().map(|(k, l)| format!("{}.{}", k, opt_hex(idna::domain_to_ascii(l).ok().as_deref()))).collect();
    format!(
        "C!{}!{}!{}!{}!{}!{}",
        hex(raw),
        f.action.is_some() as u8,
        f.mask.contains(CosmeticFilterMask::SCRIPT_INJECT) as u8,
        f.mask.contains(CosmeticFilterMask::UNHIDE) as u8,
        opt_hex(f.plain_css_selector()),
        ls.join(",")
    )
}

fn err_name<E: std::fmt::Debug>(e: &E) -> String {
    let s = format!("{:?}", e);
    s.split('(').next().unwrap_or("").to_string()
}

pub fn run(seed: u64, n: usize, out: &mut Out) {
    let mut r = Rng::new(seed ^ 0x2020);
    let scripts = crate::cosm::script_pool();
    for _ in 0..n {
        let k = 1 + r.below(9);
        let lines: Vec<String> = (0..k).map(|_| if r.pct(70) { net_line(&mut r) } else { cos_line(&mut r, &scripts) }).collect();
        // what the FilterSet will hold, rule by rule (debug mode keeps the raw text)
        let mut nets: Vec<(NetworkFilter, String)> = vec![];
        let mut coss: Vec<(CosmeticFilter, String)> = vec![];
        let mut fs = FilterSet::new(true);
        let mut parse_panic = false;
        for l in &lines {
            let l2 = l.clone();
            match guarded(move || parse_filter(&l2, true, Default::default())) {
                Ok(Ok(ParsedFilter::Network(f))) => {
                    let raw = f.raw_line.as_ref().map(|b| (**b).clone()).unwrap_or_default();
                    nets.push((f, raw));
                    let _ = fs.add_filter(l, Default::default());
                }
                Ok(Ok(ParsedFilter::Cosmetic(f))) => {
                    let raw = f.raw_line.as_ref().map(|b| (**b).clone()).unwrap_or_default();
                    coss.push((f, raw));
                    let _ = fs.add_filter(l, Default::default());
                }
                Ok(Err(_)) => {}
                Err(p) => {
                    // the rule set cannot even be built: the conversion of "any rule set" starts with its lines (the location
                    // helper of the cosmetic parser is also what the cosmetic translation reads the raw line with)
                    parse_panic = true;
                    out.fail("rule-set-construction-panicked", None, json!({"line": l, "panic": p}));
                }
            }
        }
        if parse_panic {
            continue;
        }
        let desc = json!({"rules": lines});
        let all_ascii = lines.iter().all(|l| l.is_ascii());
        // --- per-rule conversions
        let mut expect_used: Vec<String> = vec![];
        let mut items: Vec<String> = vec![];
        crate::c11::emit_plines(out, &nets.iter().map(|(_, raw)| raw.clone()).collect::<Vec<_>>());
        for (f, raw) in &nets {
            let f2 = f.clone();
            let res = guarded(move || TryInto::<CbRuleEquivalent>::try_into(f2).map(|e| e.into_iter().collect::<Vec<CbRule>>()));
            let imp = match &res {
                Ok(Ok(rules)) => {
                    expect_used.push(raw.clone());
                    format!("OK:{}", rules.iter().map(show_rule).collect::<Vec<_>>().join("|"))
                }
                Ok(Err(e)) => format!("ERR:{}", err_name(e)),
                Err(p) => {
                    out.fail("conversion-panicked", None, json!({"api": "CbRuleEquivalent::try_from(NetworkFilter)", "rule": raw, "panic": p}));
                    "PANIC".to_string()
                }
            };
            out.bump(&format!("net:{}", imp.split(':').next().unwrap_or("")));
            if let Ok(Err(e)) = &res {
                out.bump(&format!("net_err:{}", err_name(e)));
            }
            let item = format!("N!{}!{}", dump_rule(f, false), hex(raw));
            if raw.is_ascii() {
                out.case(&format!("cbn\t{}", item), &imp, json!({"api": "network rule -> content blocking", "rule": raw, "impl": imp.chars().take(200).collect::<String>()}), imp.starts_with("OK"));
            }
            items.push(item);
            // the emitted pattern matches what the original rule matches (plain patterns)
            if let Ok(Ok(rules)) = &res {
                superset_check(out, &mut r, f, raw, rules);
            }
        }
        for (f, raw) in &coss {
            let f2 = f.clone();
            let res = guarded(move || TryInto::<CbRule>::try_into(f2));
            let imp = match &res {
                Ok(Ok(rule)) => {
                    expect_used.push(raw.clone());
                    format!("OK:{}", show_rule(rule))
                }
                Ok(Err(e)) => format!("ERR:{}", err_name(e)),
                Err(p) => {
                    out.fail("conversion-panicked", None, json!({"api": "CbRule::try_from(CosmeticFilter)", "rule": raw, "panic": p}));
                    "PANIC".to_string()
                }
            };
            out.bump(&format!("cos:{}", imp.split(':').next().unwrap_or("")));
            let item = dump_cos(f, raw);
            out.case(&format!("cbc\t{}", item), &imp, json!({"api": "cosmetic rule -> content blocking", "rule": raw, "impl": imp.chars().take(200).collect::<String>()}), imp.starts_with("OK"));
            items.push(item);
        }
        // --- the whole set
        let res = guarded(move || fs.into_content_blocking());
        match res {
            Err(p) => {
                out.fail("conversion-panicked", None, json!({"api": "FilterSet::into_content_blocking", "case": desc, "panic": p}));
            }
            Ok(Err(())) => out.fail("debug-mode-set-refused", None, desc.clone()),
            Ok(Ok((rules, used))) => {
                // oracles on the real output
                let mut seen_ignore = false;
                for (i, cb) in rules.iter().enumerate() {
                    let js = serde_json::to_string(cb).unwrap_or_default();
                    if !js.is_ascii() {
                        out.fail("emitted-rule-not-ascii", None, json!({"case": desc, "rule": js}));
                    }
                    if !safari_ok(&cb.trigger.url_filter) {
                        out.fail("url-filter-outside-safari-subset", None, json!({"case": desc, "url_filter": cb.trigger.url_filter}));
                    }
                    if regex::Regex::new(&cb.trigger.url_filter).is_err() {
                        out.fail("url-filter-is-not-a-regex", None, json!({"case": desc, "url_filter": cb.trigger.url_filter}));
                    }
                    if cb.trigger.if_domain.is_some() && cb.trigger.unless_domain.is_some() {
                        out.fail("if-domain-and-unless-domain-together", None, json!({"case": desc, "rule": js}));
                    }
                    if cb.trigger.if_top_url.is_some() && cb.trigger.unless_top_url.is_some() {
                        out.fail("if-top-url-and-unless-top-url-together", None, json!({"case": desc, "rule": js}));
                    }
                    match cb.action.typ {
                        CbType::IgnorePreviousRules => seen_ignore = true,
                        _ if seen_ignore => out.fail("blocking-entry-after-ignore-previous-rules", None, json!({"case": desc, "position": i, "rule": js})),
                        _ => {}
                    }
                }
                if used != expect_used {
                    out.fail("filters-used-differs-from-converted-rules", None, json!({"case": desc, "reported": used, "individually_convertible": expect_used}));
                }
                out.add("emitted_rules", rules.len() as u64);
                let imp = format!("{}#{}", rules.iter().map(show_rule).collect::<Vec<_>>().join("|"), used.iter().map(|u| hex(u)).collect::<Vec<_>>().join(","));
                if all_ascii {
                    out.case(&format!("cbset\t{}", items.join("\t")), &imp, json!({"api": "FilterSet::into_content_blocking", "rules": lines, "emitted": rules.len(), "used": used.len()}), !rules.is_empty());
                } else {
                    out.oracle_case(&format!("cbset|{}", lines.join("\n")), &desc, !rules.is_empty());
                }
            }
        }
    }
}

/// URLs the original rule matches must be matched by the emitted url-filter (plain patterns, no userinfo / port)
fn superset_check(out: &mut Out, r: &mut Rng, f: &NetworkFilter, raw: &str, rules: &[CbRule]) {
    let full_pat = f.filter.string_view().unwrap_or_default();
    // plain patterns, and plain patterns closed by one separator placeholder (`/ad.js^`): the literal part is instantiated
    let pat = full_pat.strip_suffix('^').unwrap_or(&full_pat).to_string();
    if pat.contains('*') || pat.contains('^') || !raw.is_ascii() || (pat.is_empty() && full_pat.ends_with('^')) {
        return;
    }
    let closed = full_pat.ends_with('^');
    if closed && f.mask.contains(adblock::filters::network::NetworkFilterMask::IS_RIGHT_ANCHOR) {
        // `…^|` is outside what the clause about plain patterns covers (the emitted pattern keeps only the end-of-URL case)
        return;
    }
    let uf = &rules[0].trigger.url_filter;
    let cs = rules[0].trigger.url_filter_is_case_sensitive == Some(true);
    let re = match regex::RegexBuilder::new(uf).case_insensitive(!cs).build() {
        Ok(x) => x,
        Err(_) => return,
    };
    let mut pr = PRule { line: raw.to_string(), f: Box::new(f.clone()), rm: Default::default() };
    let host = f.hostname.clone().unwrap_or_else(|| "site.example".to_string());
    let body = if f.hostname.is_some() { pat.clone() } else { format!("/{}", pat) };
    let cands = [
        format!("https://{}{}", host, body),
        format!("http://sub.{}{}", host, body),
        format!("https://{}{}", host, pat),
        format!("https://{}/{}tail?x=1", host, pat),
        format!("https://www.{}/pre{}", host, pat),
        pat.clone(),
        // a URL that starts and ends with the pattern text without being it
        format!("{}?u={}", pat, pat),
        format!("{}#{}", pat, pat),
        format!("https://{}", pat),
        format!("{}", pat.trim_start_matches('/')),
        // user information before the host (the request's host is what follows the last `@` of the authority)
        format!("https://user@{}{}", host, body),
        format!("https://u:p@sub.{}{}", host, body),
        // a backslash ends the authority of http(s) URLs like a slash does: what follows is path, whatever it looks like
        format!("https://a.com\\@{}{}", host, body),
        format!("https://a.com\\x@{}/ad.png", host),
        // every literal character of the pattern stands for itself: URLs that differ from the pattern in one `.`
        format!("https://{}{}?cb=1", host, body.replacen('.', "/", 1)),
        format!("https://{}{}/x", host, body.replacen('.', "-", 1)),
        format!("https://{}{}", host, body.replace('.', "x")),
    ];
    let cands: Vec<String> = if closed {
        // the placeholder stands for a separator character or the end of the URL
        cands.iter().flat_map(|c| [c.clone(), format!("{}/", c), format!("{}?x=1", c)]).collect()
    } else {
        cands.to_vec()
    };
    for u in cands {
        for ty in ["script", "image", "sub_frame", "xhr"] {
            for src in ["https://page.example/", "https://sub.site.example/"] {
                if let Some(q) = make_req(&u, src, ty) {
                    if q.req.hostname.is_empty() {
                        continue;
                    }
                    // the request is read by the crate's URL scanner: its reading is compared with the model's
                    crate::c12::emit_url_case(out, &u);
                    let authority = q.req.url.split("://").nth(1).unwrap_or("").split(|c| c == '/' || c == '?' || c == '#').next().unwrap_or("");
                    let class = if authority.contains('@') { Some("url_with_user_information") } else { None };
                    if class.is_none() && q.req.url.contains('@') && !u.contains('\\') {
                        continue;
                    }
                    if pr.matches(&q.req) {
                        out.bump("superset_urls_checked");
                        if !re.is_match(&q.req.url) {
                            out.fail("emitted-pattern-misses-a-url-the-rule-matches", class, json!({"rule": raw, "url_filter": uf, "url": q.req.url, "type": ty, "source": src}));
                        }
                        break;
                    }
                }
            }
        }
    }
    let _ = r;
}
