//! Property-specific generators on top of the shared engine op (`c01::emit`):
//! C04 (precedence, badfilter twins, monotone addition), C05 (fusion), C13 (redirect choice and
//! resource stores), C15 (csp merge).  Each also runs an in-process oracle on the real API.
use crate::c01::{emit, std_resources, Case};
use crate::gen;
use crate::net::*;
use crate::util::*;
use adblock::resources::{MimeType, Resource, ResourceType};
use adblock::Engine;
use serde_json::json;

fn build(lines: &[String], optimize: bool, tags: &[String], resources: &[Resource]) -> Engine {
    let mut e = Engine::from_rules_parametrised(lines, Default::default(), true, optimize);
    for r in resources {
        let _ = e.add_resource(r.clone());
    }
    e.use_tags(&tags.iter().map(|s| s.as_str()).collect::<Vec<_>>());
    e
}

fn tagsets(r: &mut Rng) -> Vec<String> {
    match r.below(4) {
        0 => vec![],
        1 => vec!["t1".into()],
        2 => vec!["t2".into()],
        _ => vec!["t1".into(), "t2".into()],
    }
}

fn verdict_key(v: &adblock::blocker::BlockerResult) -> String {
    show_verdict(v)
}

/// The same rule under every tag, and untagged, in one bucket — as exception and as important rule: whichever
/// tags are enabled, the copies that are active must be found behind (and apart from) those that are not.
fn every_tag_copies(r: &mut Rng) -> Vec<String> {
    let mut v = vec!["||cdn.test^".to_string()];
    let mut tagsv = vec!["t1", "t2"];
    if r.pct(50) {
        tagsv.reverse();
    }
    for t in &tagsv {
        v.push(format!("@@||cdn.test/x1$tag={}", t));
        v.push(format!("||cdn.test/x2$important,tag={}", t));
        v.push(format!("/x1$tag={}", t));
    }
    if r.pct(50) {
        v.push("@@||cdn.test/x1".to_string());
    }
    if r.pct(30) {
        v.push("@@||cdn.test/x2".to_string());
    }
    v
}

// ------------------------------------------------------------------------------------------ C05
pub fn run_c05(seed: u64, n: usize, out: &mut Out) {
    let mut r = Rng::new(seed);
    let resources = std_resources();
    for _ in 0..n {
        let o = gen::ClusterOpts { badfilter: false, ..gen::ALL_ON };
        let mut lines = gen::cluster_same_mask(&mut r, &o);
        if r.pct(40) {
            lines.extend(gen::cluster(&mut r, &o));
        }
        // rules stored in several buckets (no pattern token, one `domain=` value per bucket) next to rules
        // that own one of those buckets alone: optimising a bucket must keep the shared ones
        let mut aimed: Vec<(String, String, String)> = vec![];
        if r.pct(30) {
            let d1: &str = r.pick(&["shop.test", "cdn.test"]);
            let d2: &str = r.pick(&["other.net", "sub.shop.test"]);
            let tys = ["image", "script", "stylesheet", "font", "xhr"];
            let t0: &str = r.pick(&tys);
            lines.push(format!("*${},domain={}|{}", t0, d1, d2));
            for _ in 0..2 + r.below(2) {
                let t: &str = r.pick(&tys);
                lines.push(format!("*${},domain={}", t, d1));
            }
            if r.pct(50) {
                lines.push(format!("*${},domain={}", r.pick(&tys), d2));
            }
            for d in [d1, d2] {
                aimed.push(("https://x.test/anything".to_string(), format!("https://{}/", d), if t0 == "xhr" { "xhr".to_string() } else { t0.to_string() }));
            }
        }
        if r.pct(20) {
            // left-anchored plain rules of one bucket, of very different lengths: fused, each still matches what it matches alone
            let h: &str = r.pick(&["ads.tracker.io", "cdn.test"]);
            let opt: &str = r.pick(&["", "$script", "$image,third-party"]);
            let exc = r.pct(20);
            for tail in ["ads/popunder/long/path/segment", "ads.js", "pop", "ad"] {
                lines.push(format!("{}|https://{}/{}{}", if exc { "@@" } else { "" }, h, tail, opt));
            }
            if exc {
                lines.push(format!("||{}^", h));
            }
            let ty = if opt.contains("image") { "image" } else { "script" };
            for u in ["ads.js", "advert.js", "pop", "ads/popunder/long/path/segment/x", "a"] {
                aimed.push((format!("https://{}/{}", h, u), "https://shop.test/".to_string(), ty.to_string()));
            }
        }
        if r.pct(20) {
            // regular-expression rules that do not compile (look-around, unbalanced brackets) match nothing; fused with others of
            // their bucket they must not take those down with them
            let bad: &str = r.pick(&["/banner[0-9]+(?!x)/", "/zz[/", "/a{2,1}b/", "/(?<=ad)vert/"]);
            let opt: &str = r.pick(&["", "$image", "$script,third-party"]);
            lines.push(format!("/advert[0-9]+/{}", opt));
            lines.push(format!("{}{}", bad, opt));
            if r.pct(50) {
                lines.push(format!("/promo[a-z]+[0-9]/{}", opt));
            }
            let ty = if opt.contains("script") { "script" } else { "image" };
            aimed.push(("https://cdn.test/advert12.png".to_string(), "https://shop.test/".to_string(), ty.to_string()));
            aimed.push(("https://cdn.test/promox7".to_string(), "https://shop.test/".to_string(), ty.to_string()));
        }
        if r.pct(20) {
            // rules whose request types were all negated away share a bucket with ordinary ones: an exception of that kind still
            // applies to documents, and whatever the optimiser does with the bucket must keep it
            let w: &str = r.pick(&["adpage", "landing"]);
            let all_neg = "~font,~image,~media,~object,~other,~ping,~script,~stylesheet,~subdocument,~websocket,~xmlhttprequest";
            lines.push(format!("/{}.$document", w));
            lines.push(format!("@@-{}-$script", w));
            lines.push(format!("@@/{}.${}", w, all_neg));
            if r.pct(50) {
                lines.push(format!("/{}.${}", w, all_neg));
                lines.push(format!("/{}/x$image", w));
            }
            for (u, t) in [(format!("https://cdn.test/{}.html", w), "document"), (format!("https://cdn.test/{}.js", w), "script"), (format!("https://cdn.test/-{}-/{}.html", w, w), "document")] {
                aimed.push((u, r.pick(&["", "https://shop.test/"]).to_string(), t.to_string()));
            }
        }
        if r.pct(20) {
            lines.extend(every_tag_copies(&mut r));
            for p in ["x1", "x2"] {
                aimed.push((format!("https://cdn.test/{}", p), "https://shop.test/".to_string(), "script".to_string()));
            }
        }
        let tags = tagsets(&mut r);
        let e_opt = build(&lines, true, &tags, &resources);
        let e_un = build(&lines, false, &tags, &resources);
        // explicit optimisation of a live engine
        let mut e_live = build(&lines, false, &tags, &resources);
        let rules = parse_all(&lines);
        if rules.is_empty() {
            continue;
        }
        let mut live_optimized = false;
        let rounds = 5 + aimed.len().min(8);
        for k in 0..rounds {
            let (u, s, t) = match aimed.pop() {
                Some(a) if k >= 3 || r.pct(50) => a,
                Some(a) => {
                    aimed.push(a);
                    gen::cluster_url(&mut r, &lines)
                }
                None => gen::cluster_url(&mut r, &lines),
            };
            if !u.is_ascii() {
                continue;
            }
            let q = match make_req(&u, &s, &t) {
                Some(q) => q,
                None => continue,
            };
            if k == 2 && !live_optimized {
                e_live.verif_blocker_mut().optimize();
                live_optimized = true;
            } else if k == 4 && live_optimized {
                // optimising an already optimised engine fuses fused rules (AnyOf parts) again
                e_live.verif_blocker_mut().optimize();
                out.bump("re_optimized");
            }
            let a = e_opt.check_network_request(&q.req);
            let b = e_un.check_network_request(&q.req);
            let c = e_live.check_network_request(&q.req);
            let ca = show_csp(&e_opt.get_csp_directives(&q.req));
            let cb = show_csp(&e_un.get_csp_directives(&q.req));
            let cc = show_csp(&e_live.get_csp_directives(&q.req));
            let desc = json!({"rules": lines, "tags": tags, "url": u, "source": s, "type": t,
                "optimized": verdict_key(&a), "unoptimized": verdict_key(&b), "live": verdict_key(&c), "live_was_optimized": live_optimized});
            // redirect ties may be resolved differently: compare the rest exactly and the redirect only when priorities cannot tie
            let strip = |v: &adblock::blocker::BlockerResult| format!("{},{},{},{}", v.matched, v.important, v.exception.is_some(), v.rewritten_url.clone().unwrap_or_default());
            if strip(&a) != strip(&b) || ca != cb {
                out.fail("optimized-vs-unoptimized", None, desc.clone());
            }
            if strip(&c) != strip(&b) || cc != cb {
                out.fail("explicit-optimize-changed-answer", None, desc.clone());
            }
            let case = Case { lines: lines.clone(), optimize: true, tags: tags.clone() };
            emit(out, &case, &e_opt, &rules, &resources, &q, "chk-optimized");
            let case = Case { lines: lines.clone(), optimize: false, tags: tags.clone() };
            emit(out, &case, &e_un, &rules, &resources, &q, "chk-unoptimized");
        }
    }
    // plain (un-anchored) families without an indexable token, some members longer than the whole request URL: fused, the
    // short members still match (whatever the order of the members inside the fused rule)
    for round in 0..6 {
        let opt: &str = ["", "$script", "$script,third-party"][round % 3];
        let mut lines: Vec<String> = ["/advertisementbannerrotatorwithaverylongnameindeed", "/advertisementplaceholderframeforthewholepage", "/sponsoredcontentwidgetloaderscriptbundle", "/adjs", "/adpx", "/zq"]
            .iter().map(|l| format!("{}{}", l, opt)).collect();
        if round >= 3 {
            lines.reverse();
        }
        let e_opt = build(&lines, true, &[], &resources);
        let e_un = build(&lines, false, &[], &resources);
        let mut e_live = build(&lines, false, &[], &resources);
        e_live.verif_blocker_mut().optimize();
        for u in ["https://a.io/adpx", "https://a.io/adjs", "https://a.io/zq", "https://a.io/advertisementbannerrotatorwithaverylongnameindeed", "https://a.io/x"] {
            if let Some(q) = make_req(u, "https://source.example/", "script") {
                let (a, b, c) = (e_opt.check_network_request(&q.req), e_un.check_network_request(&q.req), e_live.check_network_request(&q.req));
                if a.matched != b.matched || c.matched != b.matched {
                    out.fail("fused-plain-family-lost-a-short-member", None, json!({"rules": lines, "url": u, "optimized": a.matched, "unoptimized": b.matched, "optimized_live": c.matched}));
                }
                let rules = parse_all(&lines);
                let case = Case { lines: lines.clone(), optimize: true, tags: vec![] };
                emit(out, &case, &e_opt, &rules, &resources, &q, "chk-optimized");
                out.bump("short_member_probes");
            }
        }
    }
    // large families: however many rules of one bucket are fusable together, every one of them keeps blocking its
    // own URL (sizes around the powers of two a piecewise fusion would use)
    for round in 0..(n / 60).max(2) {
        let sizes = [31usize, 32, 33, 63, 64, 65, 66, 127, 128, 129, 130, 193, 257];
        let size = sizes[r.below(sizes.len())];
        let fam: &str = r.pick(&["bigfam", "bulkzone"]);
        let opt: &str = r.pick(&["", "$script", "$image,third-party", "$important"]);
        let mut lines: Vec<String> = (0..size).map(|i| format!("/{}/k{}x{}", fam, i, opt)).collect();
        if r.pct(50) {
            lines.push(format!("@@/{}/k{}x$xhr", fam, size / 2));
        }
        if r.pct(50) {
            lines.extend(gen::cluster(&mut r, &gen::ALL_ON));
        }
        let e_opt = build(&lines, true, &[], &resources);
        let e_un = build(&lines, false, &[], &resources);
        let mut e_live = build(&lines, false, &[], &resources);
        e_live.verif_blocker_mut().optimize();
        if round % 2 == 1 {
            e_live.verif_blocker_mut().optimize();
        }
        let ty = if opt.contains("image") { "image" } else { "script" };
        for i in 0..size {
            let u = format!("https://cdn.test/{}/k{}x", fam, i);
            if let Some(q) = make_req(&u, "https://shop.test/", ty) {
                let (a, b, c) = (e_opt.check_network_request(&q.req), e_un.check_network_request(&q.req), e_live.check_network_request(&q.req));
                if !b.matched || a.matched != b.matched || c.matched != b.matched || a.important != b.important || c.important != b.important {
                    out.fail("large-fusable-family-lost-a-rule", None, json!({"family": format!("/{}/k<i>x{} for i < {}", fam, opt, size), "rule_index": i, "url": u, "type": ty,
                        "optimized": a.matched, "unoptimized": b.matched, "optimized_live": c.matched}));
                }
                out.bump("large_family_probes");
            }
        }
    }
}

// ------------------------------------------------------------------------------------------ C04
const DOMS: &[&str] = &["news.com", "shop.news.com", "blog.news.com", "a.test", "b.test"];

fn twin_base(r: &mut Rng) -> (String, Vec<String>) {
    let body = r.pick(&["||ads.example.net^", "/adframe/", "||cdn.test/px", "track*px", "|https://cdn.test/adimg/", "/px.gif|", ""]).to_string();
    let mut opts: Vec<String> = vec![];
    if r.pct(50) {
        opts.push(r.pick(&["script", "image", "xhr", "third-party", "~script", "script,image"]).to_string());
    }
    if r.pct(60) {
        let mut d = vec![];
        for _ in 0..1 + r.below(3) {
            let x = r.pick(DOMS);
            d.push(if r.pct(40) { format!("~{}", x) } else { x.to_string() });
        }
        opts.push(format!("domain={}", d.join("|")));
    }
    if r.pct(15) {
        opts.push("important".into());
    }
    (body, opts)
}

fn perturb_opts(r: &mut Rng, opts: &[String]) -> Vec<String> {
    let mut o: Vec<String> = opts.to_vec();
    match r.below(8) {
        0 => {} // identical
        1 => o.reverse(),
        2 => {
            // alias spellings
            o = o.iter().map(|x| x.replace("third-party", "3p").replace("xhr", "xmlhttprequest").replace("domain=", "from=")).collect();
        }
        3 => {
            // change one domain of the list
            o = o
                .iter()
                .map(|x| {
                    if let Some(rest) = x.strip_prefix("domain=") {
                        let mut ds: Vec<String> = rest.split('|').map(|s| s.to_string()).collect();
                        let i = r.below(ds.len());
                        let neg = ds[i].starts_with('~');
                        ds[i] = format!("{}{}", if neg { "~" } else { "" }, r.pick(DOMS));
                        format!("domain={}", ds.join("|"))
                    } else {
                        x.clone()
                    }
                })
                .collect();
        }
        4 => {
            // reorder the domain list
            o = o
                .iter()
                .map(|x| {
                    if let Some(rest) = x.strip_prefix("domain=") {
                        let mut ds: Vec<&str> = rest.split('|').collect();
                        ds.reverse();
                        format!("domain={}", ds.join("|"))
                    } else {
                        x.clone()
                    }
                })
                .collect();
        }
        5 => o.push(r.pick(&["image", "third-party", "important", "match-case"]).to_string()),
        6 => {
            if !o.is_empty() {
                let i = r.below(o.len());
                o.remove(i);
            }
        }
        _ => {
            // flip negation of one domain
            o = o
                .iter()
                .map(|x| {
                    if let Some(rest) = x.strip_prefix("domain=") {
                        let mut ds: Vec<String> = rest.split('|').map(|s| s.to_string()).collect();
                        let i = r.below(ds.len());
                        ds[i] = if let Some(p) = ds[i].strip_prefix('~') { p.to_string() } else { format!("~{}", ds[i]) };
                        format!("domain={}", ds.join("|"))
                    } else {
                        x.clone()
                    }
                })
                .collect();
        }
    }
    o
}

fn mk_line(exc: bool, body: &str, opts: &[String]) -> String {
    let mut s = String::new();
    if exc {
        s.push_str("@@");
    }
    s.push_str(body);
    if !opts.is_empty() {
        s.push('$');
        s.push_str(&opts.join(","));
    }
    if s.is_empty() || s == "@@" {
        s.push('*');
    }
    s
}

pub fn run_c04(seed: u64, n: usize, out: &mut Out) {
    let mut r = Rng::new(seed);
    let resources = std_resources();
    for _ in 0..n {
        let mut lines: Vec<String> = vec![];
        let o = gen::ClusterOpts { csp: false, removeparam: false, redirect: false, ..gen::ALL_ON };
        if r.pct(60) {
            // badfilter twin family
            let exc = r.pct(25);
            let (body, opts) = twin_base(&mut r);
            lines.push(mk_line(exc, &body, &opts));
            for _ in 0..1 + r.below(2) {
                let mut o2 = perturb_opts(&mut r, &opts);
                let body2 = if r.pct(12) { body.to_uppercase() } else { body.clone() };
                if r.pct(75) {
                    o2.push("badfilter".into());
                }
                let exc2 = if r.pct(10) { !exc } else { exc };
                lines.push(mk_line(exc2, &body2, &o2));
            }
            if r.pct(40) {
                lines.extend(gen::cluster(&mut r, &o));
            }
        } else {
            lines = gen::cluster(&mut r, &o);
            if r.pct(50) {
                lines.extend(gen::cluster(&mut r, &o));
            }
        }
        let mut scenario_url: Option<String> = None;
        if r.pct(20) {
            let (sl, su) = gen::partial_token_scenario(&mut r);
            lines.extend(sl);
            scenario_url = Some(su);
        } else if r.pct(25) {
            lines.extend(every_tag_copies(&mut r));
            scenario_url = Some(format!("https://cdn.test/{}", r.pick(&["x1", "x2"])));
        }
        if r.pct(15) {
            // one pattern text under different anchors and hosts, blocking and excepting: what is compiled for one of them is not
            // what the others mean
            let w: &str = r.pick(&["adimg", "ads"]);
            lines.push(format!("/{}/*.gif", w));
            if r.pct(60) { lines.push(format!("{}||cdn.test/{}/*.gif", if r.pct(50) { "@@" } else { "" }, w)); }
            if r.pct(60) { lines.push(format!("{}/{}/*.gif|", if r.pct(50) { "@@" } else { "" }, w)); }
            if r.pct(40) { lines.push(format!("@@|https://cdn.test/{}/*.gif", w)); }
            if r.pct(40) { lines.push("||cdn.test^".to_string()); }
            scenario_url = Some(format!("https://cdn.test/{}{}/1.gif{}", r.pick(&["static/", ""]), w, r.pick(&["", "?cb=42"])));
        }
        if r.pct(12) {
            // a rule that does not compile next to ones that do (adding a rule never unblocks)
            lines.push("/advert[0-9]+/".to_string());
            lines.push(r.pick(&["/banner[0-9]+(?!x)/", "/zz[/"]).to_string());
            scenario_url = Some("https://cdn.test/advert12.png".to_string());
        }
        // rules of the general grammar ride along (token collisions, `||host*rest`, anchors): precedence and
        // monotonicity are stated about the engine's verdict, so whatever loses a rule in a bucket shows here too
        for _ in 0..r.below(4) {
            lines.push(gen::rule(&mut r, &gen::RuleOpts { extra: true, full_regex: false }));
        }
        // the extra rule x (not badfilter, no modifier)
        let xo = gen::ClusterOpts { csp: false, removeparam: false, redirect: false, badfilter: false, tags: true, exceptions: true, important: true };
        let x = {
            let c = gen::cluster(&mut r, &xo);
            c[r.below(c.len())].clone()
        };
        let optimize = r.pct(50);
        let tags = tagsets(&mut r);
        let mut with_x = lines.clone();
        // x may be added anywhere
        let pos = r.below(with_x.len() + 1);
        with_x.insert(pos, x.clone());
        let e0 = build(&lines, optimize, &tags, &resources);
        let e1 = build(&with_x, optimize, &tags, &resources);
        let rules0 = parse_all(&lines);
        let rules1 = parse_all(&with_x);
        let xf = parse_net(&x, true);
        for _ in 0..4 {
            let mut pool = with_x.clone();
            pool.extend(lines.iter().cloned());
            let (mut u, s, t) = gen::cluster_url(&mut r, &pool);
            if r.pct(30) {
                u = r.pick(&["https://ads.example.net/x.js", "https://cdn.test/px", "https://cdn.test/adimg/a.png", "https://x.test/px.gif"]).to_string();
            }
            let s = if r.pct(40) { format!("https://{}/", r.pick(DOMS)) } else { s };
            if let Some(su) = &scenario_url {
                if r.pct(50) {
                    u = su.clone();
                }
            }
            if !u.is_ascii() {
                continue;
            }
            let q = match make_req(&u, &s, &t) {
                Some(q) => q,
                None => continue,
            };
            let v0 = e0.check_network_request(&q.req);
            let v1 = e1.check_network_request(&q.req);
            if let Some(xf) = &xf {
                use adblock::filters::network::NetworkFilterMask as M;
                let plain = !xf.mask.contains(M::BAD_FILTER) && !xf.mask.contains(M::IS_CSP) && !xf.mask.contains(M::IS_REMOVEPARAM) && !xf.mask.contains(M::GENERIC_HIDE);
                let desc = json!({"L": lines, "x": x, "optimize": optimize, "tags": tags, "url": u, "source": s, "type": t, "blocked_L": v0.matched, "blocked_Lx": v1.matched});
                if plain && xf.mask.contains(M::IS_EXCEPTION) && v1.matched && !v0.matched {
                    out.fail("adding-exception-blocked-request", None, desc.clone());
                }
                if plain && !xf.mask.contains(M::IS_EXCEPTION) && v0.matched && !v1.matched {
                    out.fail("adding-blocking-rule-unblocked-request", None, desc.clone());
                }
                out.bump("monotonicity_pairs");
            }
            // the same decision asked through the several-engines entry point: with both flags off it is the plain
            // check; `force_check_exceptions` only adds the exception lookup when nothing blocks; with
            // `previously_matched_rule` only important rules and exceptions are consulted
            for (e, ls) in [(&e0, &lines), (&e1, &with_x)] {
                let b = e.check_network_request(&q.req);
                let s00 = e.check_network_request_subset(&q.req, false, false);
                let s01 = e.check_network_request_subset(&q.req, false, true);
                let s10 = e.check_network_request_subset(&q.req, true, false);
                let s11 = e.check_network_request_subset(&q.req, true, true);
                let any_exc = s01.exception.is_some();
                let mut bad: Vec<&str> = vec![];
                if (s00.matched, s00.important, &s00.exception, &s00.filter) != (b.matched, b.important, &b.exception, &b.filter) {
                    bad.push("flags off differs from the plain check");
                }
                if s01.matched != b.matched || s01.filter != b.filter || (b.filter.is_some() && s01.exception != b.exception) {
                    bad.push("force_check_exceptions changed the decision");
                }
                for s in [&s10, &s11] {
                    // (something matched before: the request stays blocked unless an exception applies here)
                    if s.matched != s.exception.is_none() || s.important != b.important || s.filter.is_some() != b.important {
                        bad.push("previously_matched_rule: only an important rule is looked up, and only an exception unblocks");
                    }
                    if !b.important && s.exception.is_some() != any_exc {
                        bad.push("previously_matched_rule: the exception lookup is not the forced one");
                    }
                    if b.important && s.exception.is_some() {
                        bad.push("previously_matched_rule: exception reported over an important rule");
                    }
                }
                if !bad.is_empty() {
                    out.fail("subset-check-flags", None, json!({"rules": ls, "optimize": optimize, "tags": tags, "url": u, "source": s, "type": t, "broken": bad,
                        "plain": {"matched": b.matched, "important": b.important, "exception": b.exception, "filter": b.filter},
                        "force_only": {"matched": s01.matched, "exception": s01.exception, "filter": s01.filter},
                        "previously_matched": {"matched": s10.matched, "exception": s10.exception, "filter": s10.filter}}));
                }
                out.bump("subset_flag_probes");
            }
            if !rules0.is_empty() {
                let case = Case { lines: lines.clone(), optimize, tags: tags.clone() };
                emit(out, &case, &e0, &rules0, &resources, &q, "chk-L");
            }
            if !rules1.is_empty() {
                let case = Case { lines: with_x.clone(), optimize, tags: tags.clone() };
                emit(out, &case, &e1, &rules1, &resources, &q, "chk-L+x");
            }
        }
    }
}

// ------------------------------------------------------------------------------------------ C13
fn gen_store(r: &mut Rng) -> Vec<Resource> {
    let names = ["a.js", "b.gif", "noop.js", "c.css", "perm.js", "fn.js", "tpl", "alias-a", "x1", "x2", "x=1", "x=2", "stub.js?v=2", "x"];
    let n = 2 + r.below(6);
    let mut v = vec![];
    for _ in 0..n {
        let name = r.pick(&names).to_string();
        let mut aliases = vec![];
        for _ in 0..r.below(3) {
            aliases.push(r.pick(&names).to_string());
        }
        let kind = match r.below(8) {
            0 => ResourceType::Template,
            1 => ResourceType::Mime(MimeType::FnJavascript),
            2 => ResourceType::Mime(MimeType::ImageGif),
            3 => ResourceType::Mime(MimeType::TextCss),
            4 => ResourceType::Mime(MimeType::Unknown),
            5 => match r.below(6) {
                0 | 5 => ResourceType::Mime(MimeType::ApplicationJson),
                1 => ResourceType::Mime(MimeType::TextPlain),
                2 => ResourceType::Mime(MimeType::TextHtml),
                3 => ResourceType::Mime(MimeType::TextXml),
                _ => ResourceType::Mime(MimeType::ImagePng),
            },
            _ => ResourceType::Mime(MimeType::ApplicationJavascript),
        };
        let perm = if r.pct(20) { 1 + r.below(3) as u8 } else { 0 };
        let al: Vec<&str> = aliases.iter().map(|s| s.as_str()).collect();
        let mut res = mk_resource(&name, &al, kind, &format!("body-of-{}-{}", name, r.below(100)), perm);
        if r.pct(10) {
            res.dependencies = vec!["fn.js".to_string()];
        }
        let textual_not_js = matches!(res.kind, ResourceType::Mime(MimeType::ApplicationJson) | ResourceType::Mime(MimeType::TextPlain) | ResourceType::Mime(MimeType::TextHtml) | ResourceType::Mime(MimeType::TextXml));
        if r.pct(if textual_not_js { 45 } else { 12 }) {
            // content that is base64 of bytes which are not text: fine for an image, refused for every textual kind
            use base64::{engine::Engine as _, prelude::BASE64_STANDARD};
            let raw: Vec<u8> = match r.below(3) {
                0 => vec![b'{', b'"', b'k', b'"', b':', b'"', 0xff, 0xfe, b'"', b'}'],
                1 => vec![0xc3, 0x28, b'a'],
                _ => vec![b'o', b'k', 0x80],
            };
            res.content = BASE64_STANDARD.encode(&raw);
        }
        v.push(res);
    }
    v
}

pub fn run_c13(seed: u64, n: usize, out: &mut Out) {
    let mut r = Rng::new(seed);
    for _ in 0..n {
        let o = gen::ClusterOpts { csp: false, removeparam: false, badfilter: false, tags: false, redirect: true, exceptions: true, important: true };
        let mut lines = gen::cluster_kind(&mut r, &o, 1);
        if r.pct(40) {
            lines.extend(gen::cluster_kind(&mut r, &o, 1));
        }
        if r.pct(40) {
            lines.extend(gen::cluster(&mut r, &o));
        }
        // bare `||host^` redirect rules (no type option: every request type, documents included), exceptions to
        // them, and a competitor that names `document` explicitly
        let mut bare_host: Option<String> = None;
        if r.pct(35) {
            let h = r.pick(&["cdn.test", "shop.test", "other.net"]).to_string();
            // (resource names may contain `=`: an option's value is everything after its first `=`)
            let res = |r: &mut Rng| format!("{}{}", r.pick(&["a.js", "b.gif", "alias-a", "missing.js", "x=1", "x=2", "stub.js?v=2", "x"]), r.pick(&["", ":5", ":-1", ":10"]));
            lines.push(format!("||{}^$redirect={}", h, res(&mut r)));
            if r.pct(50) {
                lines.push(format!("||{}^$redirect-rule={}", h, res(&mut r)));
            }
            if r.pct(40) {
                lines.push(format!("||{}^$document,redirect-rule={}", h, res(&mut r)));
            }
            if r.pct(25) {
                lines.push(format!("@@||{}^$redirect-rule={}", h, r.pick(&["a.js", "b.gif", "alias-a", "x=2", "x"])));
            }
            bare_host = Some(h);
        }
        // rules with a single `domain=` value are stored under that domain: a request from `video.news.com` collects the
        // redirects, redirect-rules and exceptions stored for `video.news.com` AND for `news.com`
        let mut level_query: Option<(String, String)> = None;
        if r.pct(25) {
            let names = ["a.js", "b.gif", "alias-a"];
            let (n1, n2) = (*r.pick(&[&"a.js", &"b.gif"]), names[r.below(3)]);
            lines.push(format!("||adserver.test^$script,redirect-rule={}:{},domain=video.news.com", n1, r.pick(&["1", "5", "10"])));
            lines.push(format!("||adserver.test^$script,redirect-rule={}:{},domain=news.com", n2, r.pick(&["1", "5", "10", "20"])));
            if r.pct(50) {
                lines.push(format!("@@||adserver.test/player/$script,redirect-rule={},domain={}", names[r.below(3)], r.pick(&["news.com", "video.news.com"])));
            }
            if r.pct(30) {
                lines.push("||adserver.test^$script,domain=news.com".to_string());
            }
            level_query = Some((format!("https://adserver.test/{}a.js", r.pick(&["", "player/"])), "https://video.news.com/".to_string()));
        }
        let resources = if r.pct(30) || level_query.is_some() { std_resources() } else { gen_store(&mut r) };
        let optimize = r.pct(50);
        let tags = vec![];
        let mut e = build(&lines, optimize, &tags, &resources);
        // the same answers from an engine that went through serialize / deserialize (resources are not part of
        // the format and are loaded again)
        if r.pct(35) {
            if let Ok(bytes) = e.serialize_raw() {
                let mut e2 = Engine::new(true);
                if e2.deserialize(&bytes).is_ok() {
                    e2.use_resources(resources.clone());
                    e = e2;
                    out.bump("c13_reloaded_engines");
                } else {
                    out.fail("deserialize-of-own-serialization-failed", None, json!({"rules": lines}));
                }
            }
        }
        // replacing the resources replaces them all: after `use_resources` of another (or the empty) set, nothing
        // of the old set is served
        let mut resources = resources;
        if r.pct(15) {
            let newset: Vec<Resource> = if r.pct(50) { vec![] } else { resources.iter().take(1).cloned().collect() };
            e.use_resources(newset.clone());
            resources = newset;
            out.bump("c13_resources_replaced");
        }
        let rules = parse_all(&lines);
        if rules.is_empty() {
            continue;
        }
        let case = Case { lines: lines.clone(), optimize, tags };
        for k in 0..4 {
            let (mut u, s, mut t) = gen::cluster_url(&mut r, &lines);
            if let (true, Some(h)) = (k < 2, &bare_host) {
                u = format!("https://{}/{}", h, r.pick(&["", "index.html", "x1"]));
                t = r.pick(&["document", "script", "image", "subdocument"]).to_string();
            }
            let mut s = s;
            if let (true, Some((lu, ls))) = (k >= 2, &level_query) {
                u = lu.clone();
                s = ls.clone();
                t = "script".to_string();
            }
            if !u.is_ascii() {
                continue;
            }
            if let Some(q) = make_req(&u, &s, &t) {
                let v = e.check_network_request(&q.req);
                if let Some(rd) = &v.redirect {
                    // permissioned / non-redirectable kinds are never served
                    for res in &resources {
                        if (perm_bits(res) != 0 || !res.kind.supports_redirect()) && rd.ends_with(&format!(",{}", res.content)) && rd.starts_with(&format!("data:{}", mime_str(&res.kind))) && !mime_str(&res.kind).is_empty() {
                            // only a failure if no permitted resource has the same content
                            let ok = resources.iter().any(|o| perm_bits(o) == 0 && o.kind.supports_redirect() && o.content == res.content);
                            if !ok {
                                out.fail("served-unpermitted-resource", None, json!({"rules": lines, "url": u, "redirect": rd, "resource": res.name}));
                            }
                        }
                    }
                }
                emit(out, &case, &e, &rules, &resources, &q, "chk-redirect");
            }
        }
    }
}

// ------------------------------------------------------------------------------------------ C15
pub fn run_c15(seed: u64, n: usize, out: &mut Out) {
    let mut r = Rng::new(seed);
    crate::c12::type_table_oracle(out);
    let resources = std_resources();
    for _ in 0..n {
        let o = gen::ClusterOpts { csp: true, removeparam: false, badfilter: true, tags: true, redirect: false, exceptions: true, important: false };
        let mut lines = gen::cluster_kind(&mut r, &o, 0);
        if r.pct(50) {
            lines.extend(gen::cluster_kind(&mut r, &o, 0));
        }
        if r.pct(30) {
            lines.extend(gen::cluster(&mut r, &o));
        }
        // tagged csp rules
        if r.pct(30) {
            lines.push(format!("/adframe/$csp=tagged-{},tag=t1", r.below(2)));
        }
        // a top-level navigation is a document request initiated by its own URL: rules scoped by `domain=` to the page's full
        // host name, to its registrable domain, or to the one but not the other
        let mut self_nav: Option<String> = None;
        if r.pct(25) {
            lines.push("$csp=worker-src 'none',domain=app.shop.test".to_string());
            lines.push("$csp=frame-src x,domain=shop.test|~app.shop.test".to_string());
            if r.pct(50) {
                lines.push(format!("@@||shop.test^$csp{},domain=app.shop.test", r.pick(&["", "=worker-src 'none'"])));
            }
            if r.pct(50) {
                lines.push("||app.shop.test^$csp=img-src y,domain=shop.test".to_string());
            }
            self_nav = Some(format!("https://{}shop.test/inbox", r.pick(&["app.", "app.", "", "www.app."])));
        }
        let optimize = r.pct(50);
        let tags = tagsets(&mut r);
        let mut e = build(&lines, optimize, &tags, &resources);
        // the same policies from an engine that was saved and loaded again (a blanket `$csp` exception carries no value)
        if r.pct(35) {
            if let Ok(bytes) = e.serialize_raw() {
                let mut e3 = Engine::new(true);
                e3.use_tags(&tags.iter().map(|s| s.as_str()).collect::<Vec<_>>());
                if e3.deserialize(&bytes).is_ok() {
                    e = e3;
                    out.bump("c15_reloaded_engines");
                } else {
                    out.fail("deserialize-of-own-serialization-failed", None, json!({"rules": lines}));
                }
            }
        }
        // rule order must not matter
        let mut shuffled = lines.clone();
        for i in (1..shuffled.len()).rev() {
            let j = r.below(i + 1);
            shuffled.swap(i, j);
        }
        let e2 = build(&shuffled, optimize, &tags, &resources);
        let rules = parse_all(&lines);
        if rules.is_empty() {
            continue;
        }
        let case = Case { lines: lines.clone(), optimize, tags: tags.clone() };
        for _ in 0..5 {
            let (mut u, s, mut t) = gen::cluster_url(&mut r, &lines);
            // the policy is a matter of rules and request type, not of the scheme: documents fetched over another
            // scheme (ftp, file-like hosts) get the policies of the csp rules that match them
            if r.pct(10) {
                if let Some(i) = u.find("://") {
                    u = format!("{}{}", r.pick(&["ftp", "gopher", "chrome-extension", "FTP"]), &u[i..]);
                    t = r.pick(&["document", "subdocument", "main_frame", "sub_frame"]).to_string();
                }
            }
            let t = if r.pct(60) { r.pick(&["document", "subdocument", "main_frame", "sub_frame"]).to_string() } else { t };
            let mut s = s;
            if let Some(nav) = &self_nav {
                if r.pct(60) {
                    u = nav.clone();
                    s = nav.clone();
                }
            } else if r.pct(10) {
                s = u.clone();
            }
            if !u.is_ascii() {
                continue;
            }
            if let Some(q) = make_req(&u, &s, &t) {
                let c1 = show_csp(&e.get_csp_directives(&q.req));
                let c2 = show_csp(&e2.get_csp_directives(&q.req));
                if c1 != c2 {
                    out.fail("csp-depends-on-rule-order", None, json!({"rules": lines, "shuffled": shuffled, "url": u, "source": s, "type": t, "csp": c1, "csp_shuffled": c2}));
                }
                emit(out, &case, &e, &rules, &resources, &q, "csp");
            }
        }
    }
}
