//! C12: URL scan, party / scheme / type classification, `Request::new` vs `Request::preparsed`.
use crate::util::*;
use adblock::request::Request;
use adblock::url_parser::parse_url;
use serde_json::json;
use std::collections::{HashMap, HashSet};

/// What each request-type string denotes (the WebExtensions / Chromium vocabularies), stated here independently of the crate's
/// table; everything else — other spellings, other letter case — is `Other`. Run by every check whose answers depend on the type.
pub fn type_table_oracle(out: &mut Out) {
    use adblock::request::RequestType as T;
    let table: &[(&str, T)] = &[("document", T::Document), ("main_frame", T::Document), ("sub_frame", T::Subdocument), ("subdocument", T::Subdocument),
        ("script", T::Script), ("stylesheet", T::Stylesheet), ("image", T::Image), ("imageset", T::Image), ("font", T::Font), ("media", T::Media),
        ("object", T::Object), ("object_subrequest", T::Object), ("xhr", T::Xmlhttprequest), ("xmlhttprequest", T::Xmlhttprequest), ("websocket", T::Websocket),
        ("ping", T::Ping), ("beacon", T::Ping), ("csp_report", T::Csp), ("other", T::Other), ("speculative", T::Other), ("web_manifest", T::Other), ("xbl", T::Other),
        ("xml_dtd", T::Other), ("xslt", T::Other), ("", T::Other), ("Script", T::Other), ("XHR", T::Other), ("Sub_Frame", T::Other), ("frame", T::Other), ("subframe", T::Other),
        ("css", T::Other), ("doc", T::Other), ("fetch", T::Other), ("popup", T::Other), ("image ", T::Other)];
    for (name, want) in table {
        if let Ok(q) = Request::new("https://a.com/x", "https://b.org/", name) {
            if q.request_type != *want {
                out.fail("request-type-of-a-type-string", None, json!({"type_string": name, "request_type": format!("{:?}", q.request_type), "expected": format!("{:?}", want)}));
            }
        }
        let pq = Request::preparsed("https://a.com/x", "a.com", "b.org", name, true);
        if pq.request_type != *want {
            out.fail("request-type-of-a-type-string", None, json!({"api": "preparsed", "type_string": name, "request_type": format!("{:?}", pq.request_type), "expected": format!("{:?}", want)}));
        }
        out.bump("type_strings_checked");
    }
}

/// the reference public-suffix rules, loaded once
pub fn psl() -> Option<&'static Psl> {
    static P: std::sync::OnceLock<Option<Psl>> = std::sync::OnceLock::new();
    P.get_or_init(Psl::load).as_ref()
}

/// The party of a request against the reference public-suffix lookup (plain lower-case hosts only): third party exactly when
/// the registrable domains of request and initiator differ. For the checks of other properties, whose model is handed the party.
pub fn party_oracle(out: &mut Out, url: &str, src: &str, req: &Request) {
    let (p, pu, ps) = match (psl(), parse_url(url), parse_url(src)) {
        (Some(p), Some(pu), Some(ps)) => (p, pu, ps),
        _ => return,
    };
    let (h, sh) = (pu.hostname().to_string(), ps.hostname().to_string());
    if !is_tame_host(&h) || !is_tame_host(&sh) {
        return;
    }
    let third = p.domain(&h) != p.domain(&sh);
    if third != req.is_third_party {
        out.fail("party-differs-from-reference", None, json!({"url": url, "source": src, "host": h, "source_host": sh, "is_third_party": req.is_third_party, "reference": third}));
    }
    out.bump("party_reference_checks");
}

/// The URL scanner on one ASCII URL against its model (`url` op): scheme, host and the normalised text. For the checks of
/// other properties whose requests must be read the way the model reads them.
pub fn emit_url_case(out: &mut Out, url: &str) {
    let key = format!("url-op:{}", url);
    if !url.is_ascii() || url.contains('\n') || url.contains('\t') || out.seen_lines.contains(&key) {
        return;
    }
    out.seen_lines.insert(key);
    let imp = match parse_url(url) {
        Some(p) => format!("{};{};{}", hex(p.schema()), hex(p.hostname()), hex(&p.url)),
        None => "NONE".to_string(),
    };
    out.bump("request_urls_read_by_the_model");
    out.case(&format!("url\t{}\t-", hex(url)), &imp, json!({"api": "parse_url", "url": url, "impl": imp.chars().take(120).collect::<String>()}), imp != "NONE");
}

/// canonical text of a request: `type,http,https,supported,3p,url,hostname,srcHashes,tokens`
pub fn show_req(q: &Request) -> String {
    let join = |v: &Vec<u64>| v.iter().map(|x| x.to_string()).collect::<Vec<_>>().join(".");
    format!(
        "{:?},{},{},{},{},{},{},{},{}",
        q.request_type,
        q.is_http as u8,
        q.is_https as u8,
        q.is_supported as u8,
        q.is_third_party as u8,
        hex(&q.url),
        hex(&q.hostname),
        match &q.source_hostname_hashes {
            Some(v) => format!("+{}", join(v)),
            None => "-".to_string(),
        },
        if q.url.is_ascii() { join(q.get_tokens()) } else { "?".to_string() }
    )
}

/// Reference public-suffix lookup over the rule file the `psl` crate was generated from.
pub struct Psl {
    rules: HashSet<String>,
    wild: HashSet<String>,
    exc: HashSet<String>,
    pub suffixes: Vec<String>,
}

impl Psl {
    pub fn load() -> Option<Psl> {
        let t = std::fs::read_to_string("/verif/data/psl_rules.txt").ok()?;
        let mut p = Psl { rules: HashSet::new(), wild: HashSet::new(), exc: HashSet::new(), suffixes: vec![] };
        for l in t.lines() {
            let l = l.trim();
            if l.is_empty() || l.starts_with("//") || !l.is_ascii() {
                continue;
            }
            if let Some(x) = l.strip_prefix("*.") {
                p.wild.insert(x.to_string());
            } else if let Some(x) = l.strip_prefix('!') {
                p.exc.insert(x.to_string());
            } else {
                p.rules.insert(l.to_string());
                p.suffixes.push(l.to_string());
            }
        }
        Some(p)
    }
    /// registrable domain (or the suffix itself when the host is a bare suffix) of a plain lower-case host
    pub fn domain(&self, host: &str) -> String {
        let labels: Vec<&str> = host.split('.').collect();
        let n = labels.len();
        // number of labels of the public suffix: longest matching rule; exceptions win; default `*`
        let mut suffix_labels = 1;
        for k in 1..=n {
            let cand = labels[n - k..].join(".");
            if self.exc.contains(&cand) {
                suffix_labels = k - 1;
                break;
            }
            if self.rules.contains(&cand) {
                suffix_labels = suffix_labels.max(k);
            }
            if k >= 2 {
                let parent = labels[n - k + 1..].join(".");
                if self.wild.contains(&parent) {
                    suffix_labels = suffix_labels.max(k);
                }
            }
        }
        let take = (suffix_labels + 1).min(n);
        labels[n - take..].join(".")
    }
}

const LABELS: &[&str] = &["a", "b", "ads", "www", "cdn", "x1", "my-site", "example", "foo", "bar", "tracker", "static", "s3", "blogspot", "github", "co", "com", "city", "n0"];
const FIXED_SUFFIXES: &[&str] = &["com", "org", "net", "co.uk", "uk", "github.io", "io", "blogspot.com", "ck", "www.ck", "kawasaki.jp", "city.kawasaki.jp", "jp", "compute.amazonaws.com", "s3.amazonaws.com", "amazonaws.com", "example", "localhost", "local", "zz", "com.au", "au", "pvt.k12.ma.us", "k12.ma.us", "ma.us", "us", "kobe.jp", "city.kobe.jp", "bd", "x.bd", "er", "nom.br", "x.nom.br", "br",
    // top-level labels that are not on the list and end in a digit (not addresses: the last label is not a number)
    "web3", "x1", "site2", "a0", "0x10"];

fn plain_host(r: &mut Rng, psl: &Option<Psl>) -> String {
    let suffix = match psl {
        Some(p) if r.pct(50) => p.suffixes[r.below(p.suffixes.len())].clone(),
        _ => r.pick(FIXED_SUFFIXES).to_string(),
    };
    let k = r.below(4);
    let mut parts: Vec<String> = (0..k).map(|_| r.pick(LABELS).to_string()).collect();
    parts.push(suffix);
    parts.join(".")
}

fn any_host(r: &mut Rng, psl: &Option<Psl>) -> String {
    match r.below(24) {
        0 => plain_host(r, psl).to_uppercase(),
        1 => r.pick(&["b\u{fc}cher.example", "\u{43f}\u{440}\u{438}\u{43c}\u{435}\u{440}.\u{440}\u{444}", "\u{4f8b}\u{3048}.jp", "B\u{dc}CHER.example", "xn--bcher-kva.example", "www.b\u{fc}cher.co.uk", "a.\u{516c}\u{53f8}.cn", "fa\u{df}.de", "\u{130}.com", "a\u{200d}b.com", "a\u{ad}b.com", "xn--a.com", "xn--.com", "\u{fffd}.com", "a\u{3002}b.com", "\u{ff41}.com", "a.b\u{301}.com"]).to_string(),
        2 => r.pick(&["127.0.0.1", "1.2.3.4", "5.6.3.4", "10.20.0.1", "192.168.0.1", "10.0.0.1", "0x7f.1", "192.168.1.1", "1.2.3", "256.1.1.1", "1.2.3.4.5", "0.0.0.0"]).to_string(),
        3 => r.pick(&["[::1]", "[2001:db8::1]", "[::ffff:1.2.3.4]", "[::1", "::1]", "[]", "[a:b]", "[::1]x", "[:"]).to_string(),
        4 => format!("{}.", plain_host(r, psl)),
        5 => r.pick(&["", ".", "..", "a..b", ".a.com", "a.com..", "-a.com", "a-.com", "a_b.com", "a b.com", "a%41.com", "%41.com", "a,b.com", "a*b.com", "a|b.com", "a^b.com", "a<b>.com", "a\u{0}b.com", "a\u{7f}.com", "a\u{1}.com", "a\u{a0}b.com"]).to_string(),
        6 => {
            let h = plain_host(r, psl);
            let at = r.below(h.len() + 1);
            format!("{}{}{}", &h[..at], r.pick(&["\t", "\n", "\r", "\t\t", "\r\n"]), &h[at..])
        }
        7 => format!("{}.{}", "a".repeat(1 + r.below(70)), plain_host(r, psl)),
        8 => (0..(1 + r.below(130))).map(|_| "ab").collect::<Vec<_>>().join("."),
        _ => plain_host(r, psl),
    }
}

fn any_url(r: &mut Rng, host: &str) -> String {
    let scheme = match r.below(20) {
        0 => r.pick(&["ws", "wss", "WS", "Wss"]).to_string(),
        1 => r.pick(&["ftp", "gopher", "file", "data", "about", "blob", "chrome-extension", "moz-extension", "javascript", "mailto", "view-source", "h+t.p-1", "x"]).to_string(),
        2 => r.pick(&["HTTP", "hTTps", "Https", "HTTPS"]).to_string(),
        3 => r.pick(&["", "1http", "+http", "ht tp", "http\t", "h\u{e9}", "-", "http:"]).to_string(),
        4 | 5 => "http".to_string(),
        _ => "https".to_string(),
    };
    let colon = if r.pct(97) { ":" } else { "" };
    let slashes = match r.below(14) {
        0 => r.pick(&["/", "", "///", "\\\\", "/\\", "\\/", "////", "/\t/"]).to_string(),
        _ => "//".to_string(),
    };
    let userinfo = match r.below(10) {
        0 => r.pick(&["user@", "user:pw@", ":pw@", "user:@", "@", "u@v@", "us er@", "\u{fc}:\u{df}@", "u\t@", "u\n:p@", "a:b:c@", "%41@", "u;=[]^|@", "u\"<>`{}@", ":@", "::@", "\t@", "u\t\t@x"]).to_string(),
        _ => String::new(),
    };
    let port = match r.below(10) {
        0 => r.pick(&[":80", ":", ":99999", ":8a", ":443", ":0", "::"]).to_string(),
        _ => String::new(),
    };
    let rest = match r.below(12) {
        0 => String::new(),
        1 => "/".to_string(),
        2 => r.pick(&["?q=1", "#frag", "\\path", "/a b", "/\u{e9}", "/\t", "/%zz", "/a@b", "/a:b", "/x?u=http://y.example/", "/UPPER/Case?Q=V", "//x", "/a\\b", "?", "#", "/@", "/a?b#c@d"]).to_string(),
        3 => "/ads/banner.js?x=1&y=2#f".to_string(),
        _ => format!("/{}/{}.js", r.pick(LABELS), r.pick(LABELS)),
    };
    let body = format!("{}{}{}{}{}{}{}", scheme, colon, slashes, userinfo, host, port, rest);
    match r.below(16) {
        0 => format!(" {}", body),
        1 => format!("{} ", body),
        2 => format!("\t{}\n", body),
        3 => format!("\u{0}{}\u{1f}", body),
        4 => format!("\u{a0}{}", body),
        _ => body,
    }
}

const TYPES: &[&str] = &["script", "image", "stylesheet", "sub_frame", "subdocument", "main_frame", "document", "xhr", "xmlhttprequest", "websocket", "font", "media", "object", "object_subrequest", "ping", "beacon", "csp_report", "imageset", "other", "speculative", "web_manifest", "xbl", "xml_dtd", "xslt", "", "SCRIPT", "unknown", "fetch"];

/// host component of a normalised URL, extracted independently of the scanner
fn host_component(url: &str, special: bool) -> Option<String> {
    let after = &url[url.find(':')? + 1..];
    let after = after.strip_prefix("//")?;
    let end = after.find(|c| c == '/' || c == '?' || c == '#' || (special && c == '\\')).unwrap_or(after.len());
    let auth = &after[..end];
    let hostport = match auth.rfind('@') {
        Some(i) => &auth[i + 1..],
        None => auth,
    };
    // port: a ':' outside square brackets
    let mut depth = false;
    let mut cut = hostport.len();
    for (i, c) in hostport.char_indices() {
        match c {
            '[' => depth = true,
            ']' => depth = false,
            ':' if !depth => {
                cut = i;
                break;
            }
            _ => {}
        }
    }
    Some(hostport[..cut].to_string())
}

pub fn is_ipv4(h: &str) -> bool {
    let parts: Vec<&str> = h.split('.').collect();
    parts.len() == 4 && parts.iter().all(|p| !p.is_empty() && p.len() <= 3 && p.chars().all(|c| c.is_ascii_digit()) && p.parse::<u32>().map(|v| v <= 255).unwrap_or(false))
}

pub fn is_tame_host(h: &str) -> bool {
    !h.is_empty()
        && h.len() < 200
        && !h.ends_with('.')
        && h.split('.').all(|l| !l.is_empty() && l.len() < 60 && !l.starts_with('-') && !l.ends_with('-') && !l.starts_with("xn--") && l.chars().all(|c| c.is_ascii_lowercase() || c.is_ascii_digit() || c == '-'))
        && !h.split('.').last().map(|l| l.chars().all(|c| c.is_ascii_digit())).unwrap_or(true)
}

pub fn run(seed: u64, n: usize, out: &mut Out) {
    type_table_oracle(out);
    let mut r = Rng::new(seed ^ 0x12);
    let psl = Psl::load();
    if psl.is_none() {
        out.fail("psl-reference-missing", None, json!({"file": "/verif/data/psl_rules.txt"}));
    }
    let mut dom_cache: HashMap<String, String> = HashMap::new();
    let catch_all = adblock::Engine::from_rules_parametrised(&["*$third-party".to_string(), "*$~third-party".to_string(), "*$document".to_string()], Default::default(), true, true);
    // every type string against every kind of scheme: only http, https, ws and wss are eligible
    for u in ["ftp://a.com/x", "data:text/plain,hi", "chrome-extension://abc/x.js", "file:///etc/x", "gopher://a.com/", "about:blank", "blob:https://a.com/uuid", "FTP://a.com/x", "wsx://a.com/", "httpx://a.com/", "https://a.com/x", "HTTP://a.com/x", "ws://a.com/x", "WSS://a.com/x"] {
        for ty in ["websocket", "script", "document", "main_frame", "xhr", "image", "other", "sub_frame", "ping", "beacon", "font", "media", "object", "stylesheet", "", "nonsense"] {
            for src in ["https://a.com/", "https://b.org/", ""] {
                if let Ok(q) = adblock::request::Request::new(u, src, ty) {
                    let scheme = u.split(':').next().unwrap().to_ascii_lowercase();
                    let eligible = matches!(scheme.as_str(), "http" | "https" | "ws" | "wss");
                    let v = catch_all.check_network_request(&q);
                    if (v.matched || v.exception.is_some()) != eligible {
                        out.fail(if eligible { "supported-request-not-matched-by-a-catch-all-rule" } else { "unsupported-scheme-request-matched" }, None,
                            json!({"case": {"url": u, "source_url": src, "type": ty}, "schema": scheme}));
                    }
                    out.bump("eligibility_grid");
                }
            }
        }
    }
    for _ in 0..n {
        let host = any_host(&mut r, &psl);
        let url = if r.pct(4) { r.pick(&["", " ", "http", "http:", "http://", "https:///", "://x", "a", "\u{e9}", "http://@", "http://:80", "http://a@", "http://\t", "x:y", "x://", "x://h", "data:text/plain,hi", "about:blank", "file:///etc/passwd", "blob:https://a.com/uuid"]).to_string() } else { any_url(&mut r, &host) };
        // the source is related to the request host: same, sibling, parent, same suffix, unrelated, absent, junk
        let src_host = match r.below(12) {
            0 | 1 => host.clone(),
            2 => format!("sub.{}", host),
            3 => host.splitn(2, '.').nth(1).unwrap_or("").to_string(),
            4 => format!("other{}", host),
            5 => {
                let mut p: Vec<&str> = host.split('.').collect();
                if !p.is_empty() {
                    p[0] = "sibling";
                }
                p.join(".")
            }
            6 => any_host(&mut r, &psl),
            _ => plain_host(&mut r, &psl),
        };
        let src = match r.below(14) {
            0 => String::new(),
            1 => r.pick(&["about:blank", "not a url", "data:text/html,x", "file:///x", "//a.com/", "a.com"]).to_string(),
            _ => any_url(&mut r, &src_host),
        };
        let ty = r.pick(TYPES).to_string();
        let desc = json!({"url": url, "source_url": src, "type": ty});

        // --- the scanner alone
        let u2 = url.clone();
        let parsed = match guarded(move || parse_url(&u2).map(|p| (p.url.clone(), p.schema().to_string(), p.hostname().to_string(), p.domain().to_string()))) {
            Ok(p) => p,
            Err(p) => {
                out.fail("request-construction-panicked", None, json!({"api": "parse_url", "case": desc, "panic": p}));
                continue;
            }
        };
        let idna_hint = match &parsed {
            Some((_, _, h, _)) if !url.is_ascii() => format!("+{}", hex(h)),
            _ => "-".to_string(),
        };
        let imp = match &parsed {
            Some((u, s, h, _)) => format!("{};{};{}", hex(s), hex(h), hex(u)),
            None => "NONE".to_string(),
        };
        out.bump(if parsed.is_some() { "url:parsed" } else { "url:rejected" });
        out.case(&format!("url\t{}\t{}", hex(&url), idna_hint), &imp, json!({"api": "parse_url", "url": url, "impl": imp.chars().take(120).collect::<String>()}), parsed.is_some());

        // --- Request::new
        let (u3, s3, t3) = (url.clone(), src.clone(), ty.clone());
        let res = match guarded(move || Request::new(&u3, &s3, &t3)) {
            Ok(x) => x,
            Err(p) => {
                out.fail("request-construction-panicked", None, json!({"api": "Request::new", "case": desc, "panic": p}));
                continue;
            }
        };
        let s4 = src.clone();
        let parsed_src = guarded(move || parse_url(&s4).map(|p| (p.hostname().to_string(), p.domain().to_string()))).ok().flatten();
        match (&res, &parsed) {
            (Ok(q), Some((nurl, schema, hostname, domain))) => {
                let special = matches!(schema.as_str(), "http" | "https" | "ws" | "wss" | "ftp" | "gopher");
                // (a) hostname = host component of the normalised URL
                if &q.url != nurl || &q.hostname != hostname {
                    out.fail("request-differs-from-parse_url", None, desc.clone());
                }
                let tabs = hostname.contains(|c| c == '\t' || c == '\n' || c == '\r');
                match host_component(&q.url, special) {
                    Some(h) if h == q.hostname => {}
                    other if !tabs => out.fail("hostname-is-not-the-host-component", None, json!({"case": desc, "normalised_url": q.url, "hostname": q.hostname, "host_component": other})),
                    _ => out.bump("host_with_tab_or_newline"),
                }
                if !q.hostname.is_ascii() {
                    out.fail("hostname-not-punycode", None, json!({"case": desc, "hostname": q.hostname}));
                }
                // (b) scheme / type classification
                let ws = schema == "ws" || schema == "wss";
                let supported = schema == "http" || schema == "https" || ws;
                if q.is_supported != supported || q.is_http != (schema == "http") || q.is_https != (schema == "https") {
                    out.fail("scheme-classification", None, json!({"case": desc, "schema": schema, "is_supported": q.is_supported, "is_http": q.is_http, "is_https": q.is_https}));
                }
                if ws && q.request_type != adblock::request::RequestType::Websocket {
                    out.fail("websocket-scheme-without-websocket-type", None, json!({"case": desc, "type": format!("{:?}", q.request_type)}));
                }
                // (b') eligibility at the engine: a catch-all list answers "no match" to every request outside
                // http(s) / ws(s), whatever its type, and matches every request inside
                {
                    let v = catch_all.check_network_request(q);
                    let hit = v.matched || v.exception.is_some();
                    if !supported && hit {
                        out.fail("unsupported-scheme-request-matched", None, json!({"case": desc, "schema": schema, "type": format!("{:?}", q.request_type)}));
                    }
                    if supported && !hit && !matches!(q.request_type, adblock::request::RequestType::Csp) {
                        out.fail("supported-request-not-matched-by-a-catch-all-rule", None, json!({"case": desc, "schema": schema, "type": format!("{:?}", q.request_type)}));
                    }
                    out.bump(if supported { "eligible_requests" } else { "ineligible_requests" });
                }
                // (c) party
                let expect_third = match &parsed_src {
                    Some((_, sd)) => sd != domain,
                    None => true,
                };
                if q.is_third_party != expect_third {
                    out.fail("party-differs-from-domain-comparison", None, json!({"case": desc, "domain": domain, "source": parsed_src, "is_third_party": q.is_third_party}));
                }
                // reference public-suffix lookup on tame hosts
                if let (Some(p), Some((sh, sd))) = (&psl, &parsed_src) {
                    for (h, d) in [(hostname, domain), (sh, sd)] {
                        if is_tame_host(h) {
                            let rd = dom_cache.entry(h.clone()).or_insert_with(|| p.domain(h)).clone();
                            if &rd != d {
                                out.fail("registrable-domain-differs-from-reference", None, json!({"host": h, "impl_domain": d, "reference_domain": rd}));
                            }
                            out.bump("psl_reference_checks");
                        }
                    }
                    if is_tame_host(hostname) && is_tame_host(sh) {
                        let third_ref = p.domain(hostname) != p.domain(sh);
                        if third_ref != q.is_third_party {
                            out.fail("party-differs-from-reference", None, json!({"case": desc, "host": hostname, "source_host": sh, "reference_third_party": third_ref}));
                        }
                        out.bump(if third_ref { "party:third" } else { "party:first" });
                    }
                }
                // an IPv4 literal has no registrable domain short of itself: two different addresses are
                // third-party to each other, whatever octets they share
                for (h, d) in [(hostname, domain)].into_iter().chain(parsed_src.iter().map(|(a, b)| (a, b))) {
                    if is_ipv4(h) {
                        if h != d {
                            out.fail("ip-literal-has-a-shorter-registrable-domain", None, json!({"host": h, "impl_domain": d}));
                        }
                        out.bump("ipv4_domain_checks");
                    }
                }
                if let Some((sh, _)) = &parsed_src {
                    if is_ipv4(hostname) && is_ipv4(sh) && (hostname != sh) != q.is_third_party {
                        out.fail("party-differs-between-ip-literals", None, json!({"case": desc, "host": hostname, "source_host": sh, "is_third_party": q.is_third_party}));
                    }
                }
                // domains are label-aligned suffixes of their hosts
                if !(hostname.ends_with(domain.as_str()) && (hostname.len() == domain.len() || hostname.as_bytes()[hostname.len() - domain.len() - 1] == b'.')) {
                    out.fail("domain-is-not-a-label-suffix-of-the-host", None, json!({"host": hostname, "domain": domain}));
                }
                // (d) rust-url agrees on the host of tame URLs
                // (non-special schemes: WHATWG keeps the host opaque, the scanner lower-cases it — not compared)
                if special && schema != "gopher" && is_tame_host(hostname) && url.is_ascii() {
                    if let Ok(pu) = url::Url::parse(&url) {
                        if let Some(url::Host::Domain(d)) = pu.host() {
                            if d != hostname {
                                out.fail("hostname-differs-from-rust-url", None, json!({"case": desc, "hostname": hostname, "rust_url_host": d}));
                            }
                            out.bump("rust_url_host_checks");
                        }
                    }
                }
                // (e) preparsed == new
                let sh = parsed_src.as_ref().map(|x| x.0.clone()).unwrap_or_default();
                let (qu, qh, t4, tp) = (q.url.clone(), q.hostname.clone(), ty.clone(), q.is_third_party);
                let sh2 = sh.clone();
                match guarded(move || Request::preparsed(&qu, &qh, &sh2, &t4, tp)) {
                    Ok(pq) => {
                        if show_req(&pq) != show_req(q) {
                            out.fail("preparsed-differs-from-new", None, json!({"case": desc, "new": show_req(q), "preparsed": show_req(&pq)}));
                        }
                        let imp = show_req(&pq);
                        out.case(&format!("rpre\t{}\t{}\t{}\t{}\t{}", hex(&q.url), hex(&q.hostname), hex(&sh), hex(&ty), tp as u8), &imp, json!({"api": "Request::preparsed", "url": q.url, "hostname": q.hostname, "source_hostname": sh, "type": ty, "third_party": tp}), true);
                    }
                    Err(p) => out.fail("request-construction-panicked", None, json!({"api": "Request::preparsed", "case": desc, "panic": p})),
                }
                out.bump(&format!("scheme:{}", if supported { schema.as_str() } else { "unsupported" }));
            }
            (Err(_), None) => {}
            _ => out.fail("request-new-and-parse_url-disagree-on-acceptance", None, desc.clone()),
        }
        // model: Request::new with the IDNA answers and registrable domains as hints
        let src_hint = match &parsed_src {
            Some((h, _)) if !src.is_ascii() => format!("+{}", hex(h)),
            _ => "-".to_string(),
        };
        let dom_u = parsed.as_ref().map(|p| hex(&p.3)).unwrap_or_default();
        let dom_s = parsed_src.as_ref().map(|p| hex(&p.1)).unwrap_or_default();
        let imp = match &res {
            Ok(q) => show_req(q),
            Err(_) => "ERR".to_string(),
        };
        out.case(&format!("rnew\t{}\t{}\t{}\t{}\t{}\t{}\t{}", hex(&url), hex(&src), hex(&ty), idna_hint, src_hint, dom_u, dom_s), &imp, json!({"api": "Request::new", "case": desc, "impl": imp.chars().take(160).collect::<String>()}), res.is_ok());
    }
    // preparsed on arbitrary (inconsistent) strings: totality only
    for _ in 0..n / 4 {
        let host = any_host(&mut r, &psl);
        let u = if r.pct(50) { any_url(&mut r, &host) } else { r.pick(&["", ":", "\u{e9}:", "a\u{e9}:x", "noscheme", "\u{1f600}"]).to_string() };
        let h = any_host(&mut r, &psl);
        let s = match r.below(4) {
            0 => String::new(),
            1 => r.pick(&[".", "..", "a.", ".a", "\u{e9}.\u{e9}", "a.\u{1f600}.b", "."]).to_string(),
            _ => any_host(&mut r, &psl),
        };
        let ty = r.pick(TYPES).to_string();
        let tp = r.pct(50);
        let (u2, h2, s2, t2) = (u.clone(), h.clone(), s.clone(), ty.clone());
        match guarded(move || show_req(&Request::preparsed(&u2, &h2, &s2, &t2, tp))) {
            Ok(imp) => out.case(&format!("rpre\t{}\t{}\t{}\t{}\t{}", hex(&u), hex(&h), hex(&s), hex(&ty), tp as u8), &imp, json!({"api": "Request::preparsed", "url": u, "hostname": h, "source_hostname": s, "type": ty, "third_party": tp}), true),
            Err(p) => out.fail("request-construction-panicked", None, json!({"api": "Request::preparsed", "url": u, "hostname": h, "source_hostname": s, "type": ty, "panic": p})),
        }
    }
}
